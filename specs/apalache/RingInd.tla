------------------------------- MODULE RingInd -------------------------------
(***************************************************************************)
(* An inductive invariant for the ring arithmetic of replay.go's queue[T]  *)
(* as used by FiniteReplayer (enqueue only), checked by Apalache: it holds *)
(* initially and is preserved by every Put, hence after ANY number of puts *)
(* - the dimension TLC can only bound.  The capacity N ranges over 2..8.   *)
(* From the invariant follows FindOK: findIDInQueue's arithmetic for       *)
(* automatic IDs returns exactly the slot after the presented ID, -1 for   *)
(* the newest and for IDs not issued yet, and the head for evicted ones.   *)
(***************************************************************************)
EXTENDS Integers

CONSTANT
    \* @type: Int;
    N

VARIABLES
    \* @type: Int -> Int;
    buf,      \* slot -> put number (0 = empty); put k carries the automatic ID k - 1
    \* @type: Int;
    head,
    \* @type: Int;
    tail,
    \* @type: Int;
    count,
    \* @type: Int;
    total,    \* successful puts so far
    \* @type: Int;
    probe     \* an arbitrary presented ID (universally quantified by being unconstrained)

CInit == N \in 2..8

All == 0..7              \* Apalache wants constant ranges: slots are the i \in All with i < N
InSlots(i) == i >= 0 /\ i < N

Init ==
    /\ buf = [i \in All |-> 0]
    /\ head = 0 /\ tail = 0 /\ count = 0 /\ total = 0 /\ probe \in Int

\* enqueue, as written in replay.go
Put ==
    LET t1 == tail + 1
        ow == t1 > head /\ count = N
        wrap == t1 = N
    IN /\ buf' = [buf EXCEPT ![tail] = total + 1]
       /\ total' = total + 1
       /\ count' = IF ow THEN count ELSE count + 1
       /\ tail' = IF wrap THEN 0 ELSE t1
       /\ head' = IF wrap /\ ow THEN 0 ELSE IF ow THEN t1 ELSE head
       /\ probe' \in Int

Next == Put

Mod(a) == IF a >= N THEN a - N ELSE a      \* for 0 <= a < 2N

\* the inductive invariant
IndInv ==
    /\ InSlots(head) /\ InSlots(tail) /\ count >= 0 /\ count <= N /\ total >= 0
    /\ \/ count < N /\ head = 0 /\ tail = count /\ total = count
       \/ count = N /\ head = tail /\ total >= N
    \* the slots from head hold the last `count` puts in order; the others are empty
    /\ \A j \in All : j < count => buf[Mod(head + j)] = total - count + j + 1
    /\ \A i \in All : (count < N /\ i >= count) => buf[i] = 0

\* an arbitrary state satisfying the invariant (variables are assigned by membership, then constrained)
IndInit ==
    /\ head \in All /\ tail \in All /\ count \in 0..8 /\ total \in Nat
    /\ buf \in [All -> Nat] /\ probe \in Int
    /\ IndInv

\* findIDInQueue for automatic IDs (id = put number - 1), as repaired
Find(id) ==
    IF count = 0 THEN -1
    ELSE LET firstID == buf[head] - 1 IN
         IF id >= firstID /\ id - firstID >= count - 1 THEN -1
         ELSE LET pos == IF id >= firstID THEN id - firstID ELSE -1
                  i == pos + head + 1
              IN IF i >= N THEN i - N ELSE i

\* what it must return for every conceivable numeric ID
FindOK ==
    LET id == probe
        r == Find(id) IN
    IF count = 0 THEN r = -1
    ELSE IF id >= total - 1 THEN r = -1                                  \* the newest, or not issued yet
    ELSE IF id >= total - count THEN InSlots(r) /\ buf[r] = id + 2        \* buffered: the slot of the next put
    ELSE r = head                                                          \* evicted: from the oldest
=============================================================================
