------------------------------ MODULE E2ETrace ------------------------------
(***************************************************************************)
(* Direction B for C05: traces of the real stack (sse.Server + Joe +       *)
(* replayer behind net/http on loopback, sse.Client with a tiny backoff,   *)
(* connections cut by a listener wrapper) validated against EndToEnd.tla's *)
(* observable variables: what was published, what the client's callbacks   *)
(* saw, and the Last-Event-Id of every request that reached the server.    *)
(* Each event of the trace must be the projection of an EndToEnd step:     *)
(*   pub   - Publish                                                       *)
(*   ev    - ClientReceive / the delivering part of a cut: the next event  *)
(*           of the published sequence, with its published payload         *)
(*   req   - Connect: the request carries the last dispatched ID           *)
(*   end   - the run is over: the client has caught up                     *)
(* Runs are concatenated; "reset" starts the next one.                     *)
(***************************************************************************)
EXTENDS Integers, Sequences, FiniteSets, TLC, Json, IOUtils

Trace == ndJsonDeserialize(IOEnv.TRACE)

VARIABLES l, published, lastID, recv, total
vars == <<l, published, lastID, recv, total>>

E == Trace[l]
Ev(e) == l <= Len(Trace) /\ E.e = e /\ l' = l + 1

Init == l = 1 /\ published = 0 /\ lastID = 0 /\ recv = <<>> /\ total = 0

Reset == Ev("reset") /\ published' = 0 /\ lastID' = 0 /\ recv' = <<>> /\ total' = E.total

\* Publish(i) is called: events are published in order 1, 2, ...
Pub == Ev("pub") /\ E.i = published + 1 /\ published' = E.i /\ UNCHANGED <<lastID, recv, total>>
\* ... and returns: a running server takes every well-formed message, however its publisher built it (a failed Publish is a lost event)
PubRet == Ev("pubret") /\ E.ok /\ UNCHANGED <<published, lastID, recv, total>>

\* a callback got an event: it was published, it is the successor of the previous one (no gap, no duplicate,
\* no reordering) and carries the published ID, type and data (compared by the driver: E.same)
ClientEvent ==
    /\ Ev("ev")
    /\ E.id >= 1 /\ E.id <= published
    /\ (recv # <<>> => E.id = recv[Len(recv)] + 1)
    /\ E.same
    /\ recv' = Append(recv, E.id) /\ lastID' = E.id
    /\ UNCHANGED <<published, total>>

\* a request reached the server: its Last-Event-Id is the ID of the last dispatched event (absent if none)
Request ==
    /\ Ev("req")
    /\ E.lid = lastID
    /\ UNCHANGED <<published, lastID, recv, total>>

\* cuts and retries are the environment's; they constrain nothing by themselves
Cut == Ev("cut") /\ UNCHANGED <<published, lastID, recv, total>>
Retry == Ev("retry") /\ UNCHANGED <<published, lastID, recv, total>>

\* the run is over (cuts have stopped, the driver has waited): everything published has arrived
End ==
    /\ Ev("end")
    /\ published = total /\ recv # <<>> /\ recv[Len(recv)] = total
    /\ UNCHANGED <<published, lastID, recv, total>>

Next == Reset \/ Pub \/ PubRet \/ ClientEvent \/ Request \/ Cut \/ Retry \/ End
Spec == Init /\ [][Next]_vars

NoGapNoDup == \A i \in 1..(Len(recv) - 1) : recv[i + 1] = recv[i] + 1

ASSUME TLCSet(1, 0)
HighWater == TLCSet(1, IF l > TLCGet(1) THEN l ELSE TLCGet(1))
Accepted == IF TLCGet(1) = Len(Trace) + 1 THEN TRUE
            ELSE Print(<<"REJECTED at line", TLCGet(1), Trace[TLCGet(1)]>>, FALSE)
=============================================================================
