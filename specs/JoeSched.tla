------------------------------ MODULE JoeSched ------------------------------
(***************************************************************************)
(* Direction A for Joe: behaviours of JoeMC.tla exported as *schedules*.   *)
(*                                                                         *)
(* Every step of MCNext appends its action name and arguments to `hist`;   *)
(* when a behaviour has run to a terminal state (every call of the         *)
(* configuration was made and has returned - a Subscribe may still wait    *)
(* for the end of its subscription) the history is printed as JSON.        *)
(* `vdriver joe-steer` replays such a history against the real Joe: the    *)
(* environment's steps (calls, cancellations, which Send / Flush / Put /   *)
(* Replay fails) are performed as listed, and every hook point of joe.go   *)
(* is a gate that holds its goroutine until the steps the behaviour puts   *)
(* before it were taken - so the real code is driven through the           *)
(* interleaving TLC chose (Shutdown between a Send and its Flush, a        *)
(* cancellation between the error report and the removal, ...).  What the  *)
(* real Joe then does is recorded as usual and validated by JoeTrace.tla:  *)
(* the verdict comes from the recorded trace, never from the steering.     *)
(*                                                                         *)
(* Used with `tlc -simulate` (random behaviours, one seed per run) and     *)
(* with exhaustive search under a VIEW that drops `hist` except for its    *)
(* last K steps (one shortest behaviour per distinct state and recent      *)
(* past: transition coverage).                                             *)
(***************************************************************************)
EXTENDS JoeMC, Json

CONSTANT FaultKinds,  \* which calls may fail in the exported behaviours: subset of {"send", "flush", "put", "rend"}
         FaultOdds,   \* a fault that is possible is taken with probability 1/FaultOdds (simulation only: keeps the fault budget
                      \* from being spent at the first opportunity in nearly every behaviour)
         SubAfter,   \* Subscribe is called only after this many messages were accepted (resuming subscribers that find a full buffer)
         DownAfter   \* Shutdown is called only after this many messages were accepted (keeps the random behaviours from ending at once)

VARIABLE hist
svars == <<mcvars, hist>>

B(b) == IF b THEN "T" ELSE "F"
H(n, a, b, c) == hist' = Append(hist, <<n, a, b, c>>)
NF == UNCHANGED nfaults

SFault(ok, kind) == Fault(ok) /\ (ok \/ (kind \in FaultKinds /\ RandomElement(1..FaultOdds) = 1))

SInit == MCInit /\ hist = <<>>

SNext ==
    \/ \E s \in Subs :
          \/ Len(accepted) >= SubAfter /\ CallSub(s, SubTopics[s], LastIDs[s]) /\ NF /\ H("CallSub", s, "", "")
          \/ S1Closed(s) /\ NF /\ H("S1Closed", s, "", "")
          \/ LoopSub(s) /\ NF /\ H("LoopSub", s, "", "")
          \/ RBegin(s) /\ NF /\ H("RBegin", s, "", "")
          \/ \E v \in {"nil", "err"}, from \in {"s2", "s3", "s4"} : RecvDone(s, from, v) /\ NF /\ H("RecvDone", s, from, v)
          \/ S2Ctx(s) /\ NF /\ H("S2Ctx", s, "", "")
          \/ (s \in CancelSubs /\ s \notin canc /\ spc[s] \in {"s1", "s2"} /\ Cancel(s) /\ NF /\ H("Cancel", s, "", ""))
          \/ \E v \in {"nil", "err", "closed"} : RetSub(s, v) /\ NF /\ H("RetSub", s, v, "")
          \/ \E p \in Pubs, ok \in BOOLEAN : Send(s, p, ok) /\ SFault(ok, "send") /\ H("Send", s, p, B(ok))
          \* a real replayer flushes what it sent, once
          \/ \E ok \in BOOLEAN : (lpc = "subrep" => s \in unfl) /\ Flush(s, ok) /\ SFault(ok, "flush") /\ H("Flush", s, B(ok), "")
          \/ \E v \in {"nil", "err", "replayerr", "panic"} : REnd(s, v) /\ SFault(v \in {"nil", "err"}, "rend") /\ H("REnd", s, v, "")
          \/ LoopSubFail(s) /\ NF /\ H("LoopSubFail", s, "", "")
          \/ LoopRegister(s) /\ NF /\ H("LoopRegister", s, "", "")
          \/ LoopFail(s) /\ NF /\ H("LoopFail", s, "", "")
          \/ \E pr \in BOOLEAN : LoopRemove(s, pr) /\ NF /\ H("LoopRemove", s, B(pr), "")
          \/ LoopUnsub(s) /\ NF /\ H("LoopUnsub", s, "", "")
    \/ \E p \in Pubs :
          \/ CallPub(p, PubTopics[p]) /\ NF /\ H("CallPub", p, "", "")
          \/ PubClosed(p) /\ NF /\ H("PubClosed", p, "", "")
          \/ LoopMsg(p) /\ NF /\ H("LoopMsg", p, "", "")
          \/ \E v \in {"ok", "err", "panic"} : Put(p, v) /\ SFault(v = "ok", "put") /\ H("Put", p, v, "")
          \/ ReplyErr(p) /\ NF /\ H("ReplyErr", p, "", "")
          \/ Reply(p) /\ NF /\ H("Reply", p, "", "")
          \/ \E v \in {"nil", "puterr", "closed"} : RetPub(p, v) /\ NF /\ H("RetPub", p, v, "")
    \/ \E k \in Downs :
          \/ Len(accepted) >= DownAfter /\ CallDown(k, k \in CtxDowns) /\ NF /\ H("CallDown", k, B(k \in CtxDowns), "")
          \/ DownPre(k) /\ NF /\ H("DownPre", k, "", "")
          \/ DownOK(k) /\ NF /\ H("DownOK", k, "", "")
          \/ DownRecovered(k) /\ NF /\ H("DownRecovered", k, "", "")
          \/ DownClosed(k) /\ NF /\ H("DownClosed", k, "", "")
          \/ DownCtx(k) /\ NF /\ H("DownCtx", k, "", "")
          \/ \E v \in {"nil", "closed", "ctx"} : RetDown(k, v) /\ NF /\ H("RetDown", k, v, "")
    \/ LoopSelect /\ NF /\ H("LoopSelect", "", "", "")
    \/ LoopDone /\ NF /\ H("LoopDone", "", "", "")
    \/ LoopExit /\ NF /\ H("LoopExit", "", "", "")

SSpec == SInit /\ [][SNext]_svars

\* every call of the configuration was made and is over (or waits for the end of its subscription with nothing pending)
Terminal ==
    /\ \A s \in Subs : \/ spc[s] = "ret"
                       \/ spc[s] = "s2" /\ s \notin canc /\ dbuf[s] = "none" /\ s \notin dclosed
    /\ \A p \in Pubs : ppc[p] = "ret"
    /\ \A k \in Downs : kpc[k] = "ret"
    /\ lpc \in {"sel", "dead"}

\* an "invariant" that never fails: prints the behaviour that ends here
Export == Terminal => PrintT(ToJson(hist))

\* for exhaustive search: one behaviour per distinct state and last two steps
Last(n) == IF Len(hist) <= n THEN hist ELSE SubSeq(hist, Len(hist) - n + 1, Len(hist))
View2 == <<mcvars, Last(2)>>
View1 == <<mcvars, Last(1)>>
View0 == mcvars
=============================================================================
