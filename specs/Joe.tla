--------------------------------- MODULE Joe ---------------------------------
(***************************************************************************)
(* joe.go: the provider Joe at the grain of its channel operations.        *)
(*                                                                         *)
(* Processes: the loop (Joe's goroutine), Subscribe calls s \in Subs,      *)
(* Publish calls p \in Pubs (PubAfter gives program order inside one       *)
(* publishing goroutine), Shutdown calls k \in Downs, and the environment  *)
(* (context cancellation, failing Send / Flush, a replayer that returns    *)
(* errors or panics).  Every action is one hook point or driver-side event *)
(* of the instrumented code (DESIGN.md 5.1): a rendezvous on an unbuffered *)
(* channel is one action, taken when the loop receives; an operation that  *)
(* publishes a change (send into a subscriber's buffered channel, close)   *)
(* is an action at its hook *before* it, an operation that observes one is *)
(* an action at its hook *after* it.                                       *)
(*                                                                         *)
(* The guards are what the (repaired) code does; TLC checks the properties *)
(* below over all interleavings (model checking), and JoeTrace.tla replays *)
(* recorded traces of the real Joe through the same actions, so that a     *)
(* trace in which the implementation does anything else is rejected.       *)
(*                                                                         *)
(* Properties served: C03 C04 C06 C07 C17 (and the reference for C05).     *)
(***************************************************************************)
EXTENDS Integers, Sequences, FiniteSets, TLC

CONSTANTS
    Subs, Pubs, Downs,   \* identities of Subscribe / Publish / Shutdown calls
    None,                \* a value that is none of the above
    PubAfter,            \* [Pubs -> Pubs \cup {None}]: the call that must have returned before this one starts
    WithReplayer,        \* TRUE: a recording replayer is configured; FALSE: Joe's no-op replayer
    RCap                 \* capacity of the replayer at the start (0: large enough for everything)

VARIABLES
    \* ---- the loop
    lpc,       \* "init" "sel" "msg" "msgput" "fan" "sub" "subrep" "subend" "subdone" "unsub" "unsubdone" "closing" "dead"
    cur,       \* the message / subscriber the loop is working on
    reg,       \* registered subscribers (keys of j.subscribers)
    sentCur,   \* subscribers served in the current fan-out
    fanCur, fanStage,  \* the subscriber being served: "flush" (Send ok, Flush due), "fail" (error to report), "remove"
    repl,      \* "none" | "alive" | "dead" (after a panic it is not used anymore)
    stored,    \* messages the replayer holds (successful Puts), in Put order
    rcap,      \* the replayer's capacity (0: large enough for everything)
    lastPut,   \* outcome of the Put of the current message: "" "ok" "err" "panic"
    repErr,    \* the current message's Put error has been handed to Publish
    rrem,      \* replay: the messages still to be sent
    rfail,     \* replay: a Send / Flush of the replay failed
    rsent,     \* replay: something was sent
    rendv,     \* replay: how Replay ended: "" "nil" "err" "replayerr" "panic"
    \* ---- Subscribe calls
    spc,       \* "idle" "s1" "s2" "s3" "s4" "r_nil" "r_err" "r_closed" "ret"
    stop,      \* topics of the subscription
    lastid,    \* the message whose ID is presented (None: unset or never issued)
    canc,      \* contexts whose cancellation was requested
    dbuf,      \* the done channel's buffer: "none" | "err"
    dclosed,   \* done channels that are closed
    errOcc,    \* subscribers to which an error was reported
    got,       \* live deliveries (successful Sends in fan-outs)
    rgot,      \* replayed deliveries
    unfl,      \* subscribers with a Send not yet followed by a Flush
    regAt,     \* number of accepted messages when the subscriber was registered (-1: not yet)
    lidKnown,  \* the presented ID was the ID of a stored message when the replay started
    mustGet,   \* messages whose Publish had returned when the subscriber's cancellation was requested
    \* ---- Publish calls
    ppc,       \* "idle" "p1" "pw" "r_closed" "ret"
    ptop, prep, pret,
    accepted,  \* the order in which the loop took the messages
    lastPutOK, \* per accepted message: its Put succeeded (ghost)
    \* ---- Shutdown calls
    kpc,       \* "idle" "k1" "k2" "kw" "r_nil" "r_closed" "r_ctx" "ret"
    kctx,      \* Shutdown calls whose context is (already) done
    att, okd, jclosed,
    \* ---- verdict ghosts
    panicked, late

loopVars == <<lpc, cur, reg, sentCur, fanCur, fanStage, repl, stored, rcap, lastPut, repErr, rrem, rfail, rsent, rendv>>
subVars  == <<spc, stop, lastid, canc, dbuf, dclosed, errOcc, got, rgot, unfl, regAt, lidKnown, mustGet>>
pubVars  == <<ppc, ptop, prep, pret, accepted, lastPutOK>>
downVars == <<kpc, kctx, att, okd, jclosed>>
ghost    == <<panicked, late>>
vars == <<loopVars, subVars, pubVars, downVars, ghost>>

Init ==
    /\ lpc = "init" /\ cur = None /\ reg = {} /\ sentCur = {} /\ fanCur = None /\ fanStage = ""
    /\ repl = (IF WithReplayer THEN "alive" ELSE "none") /\ stored = <<>> /\ rcap = RCap /\ lastPut = "" /\ repErr = FALSE
    /\ rrem = <<>> /\ rfail = FALSE /\ rsent = FALSE /\ rendv = ""
    /\ spc = [s \in Subs |-> "idle"] /\ stop = [s \in Subs |-> {}] /\ lastid = [s \in Subs |-> None]
    /\ canc = {} /\ dbuf = [s \in Subs |-> "none"] /\ dclosed = {} /\ errOcc = {}
    /\ got = [s \in Subs |-> <<>>] /\ rgot = [s \in Subs |-> <<>>] /\ unfl = {}
    /\ regAt = [s \in Subs |-> -1] /\ lidKnown = [s \in Subs |-> FALSE] /\ mustGet = [s \in Subs |-> {}]
    /\ ppc = [p \in Pubs |-> "idle"] /\ ptop = [p \in Pubs |-> {}] /\ prep = [p \in Pubs |-> "no"] /\ pret = [p \in Pubs |-> ""]
    /\ accepted = <<>> /\ lastPutOK = <<>>
    /\ kpc = [k \in Downs |-> "idle"] /\ kctx = {} /\ att = {} /\ okd = None /\ jclosed = FALSE
    /\ panicked = FALSE /\ late = FALSE

Match(s, p) == stop[s] \cap ptop[p] # {}
JDone == att # {}                          \* j.done is (being) closed: the hook fires before close()
InSeq(x, sq) == \E i \in 1..Len(sq) : sq[i] = x
IndexOf(x, sq) == IF InSeq(x, sq) THEN CHOOSE i \in 1..Len(sq) : sq[i] = x ELSE 0

\* a bounded replayer keeps the last rcap messages
Window(sq) == IF rcap > 0 /\ Len(sq) > rcap THEN SubSeq(sq, Len(sq) - rcap + 1, Len(sq)) ELSE sq

\* what a resuming subscriber must be replayed: the stored messages after the presented one that match
ExpectedReplay(s) ==
    IF lastid[s] = None \/ ~InSeq(lastid[s], stored) THEN <<>>
    ELSE SelectSeq(SubSeq(stored, IndexOf(lastid[s], stored) + 1, Len(stored)), LAMBDA p : Match(s, p))

\* close(done): closing twice is a Go panic
CloseDone(s) == /\ dclosed' = dclosed \cup {s}
                /\ panicked' = (panicked \/ s \in dclosed)

-----------------------------------------------------------------------------
(* Subscribe                                                               *)

CallSub(s, topics, lid) ==
    /\ spc[s] = "idle"
    /\ spc' = [spc EXCEPT ![s] = "s1"] /\ stop' = [stop EXCEPT ![s] = topics] /\ lastid' = [lastid EXCEPT ![s] = lid]
    /\ UNCHANGED <<loopVars, canc, dbuf, dclosed, errOcc, got, rgot, unfl, regAt, lidKnown, mustGet, pubVars, downVars, ghost>>

\* first select: j.done is closed
S1Closed(s) ==
    /\ spc[s] = "s1" /\ JDone
    /\ spc' = [spc EXCEPT ![s] = "r_closed"]
    /\ UNCHANGED <<loopVars, stop, lastid, canc, dbuf, dclosed, errOcc, got, rgot, unfl, regAt, lidKnown, mustGet, pubVars, downVars, ghost>>

\* receiving from done (second / third select, or after the unsubscription): a buffered error, or the zero value once closed
RecvDone(s, from, v) ==
    /\ spc[s] = from /\ (dbuf[s] # "none" \/ s \in dclosed)
    /\ v = (IF dbuf[s] = "err" THEN "err" ELSE "nil")
    /\ dbuf' = [dbuf EXCEPT ![s] = "none"]
    /\ spc' = [spc EXCEPT ![s] = "r_" \o v]
    /\ UNCHANGED <<loopVars, stop, lastid, canc, dclosed, errOcc, got, rgot, unfl, regAt, lidKnown, mustGet, pubVars, downVars, ghost>>

\* second select: the context is done
S2Ctx(s) ==
    /\ spc[s] = "s2" /\ s \in canc
    /\ spc' = [spc EXCEPT ![s] = "s3"]
    /\ UNCHANGED <<loopVars, stop, lastid, canc, dbuf, dclosed, errOcc, got, rgot, unfl, regAt, lidKnown, mustGet, pubVars, downVars, ghost>>

Cancel(s) ==
    /\ canc' = canc \cup {s}
    /\ mustGet' = [mustGet EXCEPT ![s] = IF s \in canc THEN @ ELSE {p \in Pubs : ppc[p] = "ret" /\ pret[p] # "closed"}]
    /\ UNCHANGED <<loopVars, spc, stop, lastid, dbuf, dclosed, errOcc, got, rgot, unfl, regAt, lidKnown, pubVars, downVars, ghost>>

\* Subscribe returns v: its own error iff one was reported to it (C06), everything published before its
\* cancellation delivered (C03), nothing left unflushed
RetSub(s, v) ==
    /\ spc[s] = "r_" \o v
    /\ (v # "closed" => ((v = "err") <=> (s \in errOcc)))
    /\ s \notin unfl
    /\ (v = "nil" => \A p \in mustGet[s] :
            (regAt[s] >= 0 /\ IndexOf(p, accepted) > regAt[s] /\ Match(s, p)) => InSeq(p, got[s]))
    /\ spc' = [spc EXCEPT ![s] = "ret"]
    /\ UNCHANGED <<loopVars, stop, lastid, canc, dbuf, dclosed, errOcc, got, rgot, unfl, regAt, lidKnown, mustGet, pubVars, downVars, ghost>>

-----------------------------------------------------------------------------
(* The loop                                                                *)

\* top of the for: the previous case is over.  After a fan-out every registered matching subscriber
\* was served exactly once (C03) and nothing is left unflushed.
LoopSelect ==
    /\ lpc \in {"init", "fan", "subdone", "unsubdone"}
    /\ fanCur = None
    /\ (lpc = "fan" => \A s \in reg : Match(s, cur) => s \in sentCur)
    /\ unfl = {}
    /\ lpc' = "sel" /\ cur' = None /\ sentCur' = {}
    /\ UNCHANGED <<reg, fanCur, fanStage, repl, stored, rcap, lastPut, repErr, rrem, rfail, rsent, rendv, subVars, pubVars, downVars, ghost>>

\* ---- case sub := <-j.subscription  (rendezvous with the first select of Subscribe)
LoopSub(s) ==
    /\ lpc = "sel" /\ spc[s] = "s1"
    /\ lpc' = "sub" /\ cur' = s /\ spc' = [spc EXCEPT ![s] = "s2"]
    /\ rrem' = <<>> /\ rfail' = FALSE /\ rsent' = FALSE /\ rendv' = ""
    /\ UNCHANGED <<reg, sentCur, fanCur, fanStage, repl, stored, rcap, lastPut, repErr, stop, lastid, canc, dbuf, dclosed, errOcc, got, rgot, unfl, regAt, lidKnown, mustGet, pubVars, downVars, ghost>>

\* the presented ID was stored once and has left a bounded replayer since: the property leaves open what such an ID replays -
\* nothing (it is not found), or everything still stored (a replayer with consecutive IDs knows the ID is older than its window)
Evicted(s) == /\ lastid[s] # None /\ ~InSeq(lastid[s], stored)
              /\ \E i \in 1..Len(accepted) : accepted[i] = lastid[s] /\ lastPutOK[i]

RBegin(s) ==
    /\ lpc = "sub" /\ cur = s /\ repl = "alive"
    /\ lpc' = "subrep"
    /\ rrem' \in (IF Evicted(s) THEN {<<>>, SelectSeq(stored, LAMBDA p : Match(s, p))} ELSE {ExpectedReplay(s)})
    /\ lidKnown' = [lidKnown EXCEPT ![s] = lastid[s] # None /\ InSeq(lastid[s], stored)]
    /\ UNCHANGED <<cur, reg, sentCur, fanCur, fanStage, repl, stored, rcap, lastPut, repErr, rfail, rsent, rendv, spc, stop, lastid, canc, dbuf, dclosed, errOcc, got, rgot, unfl, regAt, mustGet, pubVars, downVars, ghost>>

\* Send / Flush on the subscriber's MessageWriter, inside a replay or inside a fan-out
NoteLate(s) == late' = (late \/ spc[s] = "ret")

Send(s, p, ok) ==
    /\ \/ /\ lpc = "subrep" /\ cur = s /\ ~rfail
          /\ rrem # <<>> /\ p = Head(rrem)                     \* exactly the missed events, in Put order (C04)
          /\ rrem' = Tail(rrem) /\ rsent' = TRUE
          /\ IF ok THEN /\ rgot' = [rgot EXCEPT ![s] = Append(@, p)] /\ unfl' = unfl \cup {s} /\ rfail' = rfail
                   ELSE /\ rfail' = TRUE /\ UNCHANGED <<rgot, unfl>>
          /\ UNCHANGED <<got, sentCur, fanCur, fanStage>>
       \/ /\ lpc = "fan" /\ p = cur /\ fanCur = None
          /\ s \in reg /\ s \notin sentCur /\ Match(s, p)      \* once, only registered, only matching (C03)
          /\ sentCur' = sentCur \cup {s} /\ fanCur' = s
          /\ IF ok THEN /\ got' = [got EXCEPT ![s] = Append(@, p)] /\ unfl' = unfl \cup {s} /\ fanStage' = "flush"
                   ELSE /\ fanStage' = "fail" /\ UNCHANGED <<got, unfl>>
          /\ UNCHANGED <<rgot, rrem, rfail, rsent>>
    /\ NoteLate(s)
    /\ UNCHANGED <<lpc, cur, reg, repl, stored, rcap, lastPut, repErr, rendv, spc, stop, lastid, canc, dbuf, dclosed, errOcc, regAt, lidKnown, mustGet, pubVars, downVars, panicked>>

Flush(s, ok) ==
    /\ \/ /\ lpc = "subrep" /\ cur = s /\ ~rfail /\ rrem = <<>>   \* after everything was sent
          /\ rfail' = ~ok
          /\ UNCHANGED <<fanCur, fanStage>>
       \/ /\ lpc = "fan" /\ fanCur = s /\ fanStage = "flush"
          /\ IF ok THEN fanCur' = None /\ fanStage' = "" ELSE fanStage' = "fail" /\ fanCur' = fanCur
          /\ UNCHANGED rfail
    /\ unfl' = IF ok THEN unfl \ {s} ELSE unfl
    /\ NoteLate(s)
    /\ UNCHANGED <<lpc, cur, reg, sentCur, repl, stored, rcap, lastPut, repErr, rrem, rsent, rendv, spc, stop, lastid, canc, dbuf, dclosed, errOcc, got, rgot, regAt, lidKnown, mustGet, pubVars, downVars, panicked>>

\* Replay returns: nil only after everything was sent and flushed; its error if a Send / Flush failed;
\* a replayer may also fail on its own ("replayerr") or panic
REnd(s, v) ==
    /\ lpc = "subrep" /\ cur = s
    /\ CASE v = "nil"       -> ~rfail /\ rrem = <<>> /\ s \notin unfl
         [] v = "err"       -> rfail
         [] v = "replayerr" -> TRUE
         [] v = "panic"     -> TRUE
    /\ lpc' = "subend" /\ rendv' = v
    /\ repl' = IF v = "panic" THEN "dead" ELSE repl
    \* a replayer that panics half-way may leave what it sent unflushed: no property obliges Joe to repair that
    /\ unfl' = IF v = "panic" THEN unfl \ {s} ELSE unfl
    /\ UNCHANGED <<cur, reg, sentCur, fanCur, fanStage, stored, rcap, lastPut, repErr, rrem, rfail, rsent, spc, stop, lastid, canc, dbuf, dclosed, errOcc, got, rgot, regAt, lidKnown, mustGet, pubVars, downVars, ghost>>

\* the replay failed: the error goes into the subscriber's channel, which is closed; it is not registered
LoopSubFail(s) ==
    /\ lpc = "subend" /\ cur = s /\ rendv \in {"err", "replayerr"}
    /\ dbuf' = [dbuf EXCEPT ![s] = "err"] /\ errOcc' = errOcc \cup {s} /\ unfl' = unfl \ {s}
    /\ CloseDone(s)
    /\ lpc' = "subdone"
    /\ UNCHANGED <<cur, reg, sentCur, fanCur, fanStage, repl, stored, rcap, lastPut, repErr, rrem, rfail, rsent, rendv, spc, stop, lastid, canc, got, rgot, regAt, lidKnown, mustGet, pubVars, downVars, late>>

\* ... otherwise (no replayer, replay done, or replayer panicked) it is registered in the same loop iteration
LoopRegister(s) ==
    /\ cur = s
    /\ \/ lpc = "sub" /\ repl # "alive"
       \/ lpc = "subend" /\ rendv \in {"nil", "panic"}
    /\ reg' = reg \cup {s} /\ regAt' = [regAt EXCEPT ![s] = Len(accepted)]
    /\ lpc' = "subdone"
    /\ UNCHANGED <<cur, sentCur, fanCur, fanStage, repl, stored, rcap, lastPut, repErr, rrem, rfail, rsent, rendv, spc, stop, lastid, canc, dbuf, dclosed, errOcc, got, rgot, unfl, lidKnown, mustGet, pubVars, downVars, ghost>>

\* ---- case msg := <-j.message  (rendezvous with Publish)
LoopMsg(p) ==
    /\ lpc = "sel" /\ ppc[p] = "p1"
    /\ lpc' = "msg" /\ cur' = p /\ ppc' = [ppc EXCEPT ![p] = "pw"] /\ accepted' = Append(accepted, p) /\ lastPutOK' = Append(lastPutOK, FALSE)
    /\ lastPut' = "" /\ repErr' = FALSE /\ sentCur' = {}
    /\ UNCHANGED <<reg, fanCur, fanStage, repl, stored, rcap, rrem, rfail, rsent, rendv, subVars, ptop, prep, pret, downVars, ghost>>

Put(p, v) ==
    /\ lpc = "msg" /\ cur = p /\ repl = "alive" /\ v \in {"ok", "err", "panic"}
    /\ lpc' = "msgput" /\ lastPut' = v
    /\ stored' = IF v = "ok" THEN Window(Append(stored, p)) ELSE stored
    /\ rcap' = rcap
    /\ repl' = IF v = "panic" THEN "dead" ELSE repl
    /\ lastPutOK' = [lastPutOK EXCEPT ![Len(lastPutOK)] = (v = "ok")]
    /\ UNCHANGED <<cur, reg, sentCur, fanCur, fanStage, repErr, rrem, rfail, rsent, rendv, subVars, ppc, ptop, prep, pret, accepted, downVars, ghost>>

\* msg.replayerErr <- err: only a Put error (not a panic) is handed to Publish
ReplyErr(p) ==
    /\ lpc = "msgput" /\ cur = p /\ lastPut = "err" /\ ~repErr
    /\ repErr' = TRUE
    /\ prep' = [prep EXCEPT ![p] = "puterr"]     \* the channel is buffered: Publish may return from here on
    /\ UNCHANGED <<lpc, cur, reg, sentCur, fanCur, fanStage, repl, stored, rcap, lastPut, rrem, rfail, rsent, rendv, subVars, ppc, ptop, pret, accepted, lastPutOK, downVars, ghost>>

\* close(msg.replayerErr): Publish may return; the fan-out starts
Reply(p) ==
    /\ cur = p
    /\ \/ lpc = "msg" /\ repl # "alive"
       \/ lpc = "msgput" /\ (lastPut = "err" => repErr)
    /\ prep' = [prep EXCEPT ![p] = IF @ = "no" THEN "nil" ELSE @]
    /\ lpc' = "fan"
    /\ UNCHANGED <<cur, reg, sentCur, fanCur, fanStage, repl, stored, rcap, lastPut, repErr, rrem, rfail, rsent, rendv, subVars, ppc, ptop, pret, accepted, lastPutOK, downVars, ghost>>

\* done <- err for a subscriber whose Send or Flush failed in the fan-out
LoopFail(s) ==
    /\ lpc = "fan" /\ fanCur = s /\ fanStage = "fail"
    /\ dbuf' = [dbuf EXCEPT ![s] = "err"] /\ errOcc' = errOcc \cup {s} /\ unfl' = unfl \ {s}
    /\ fanStage' = "remove"
    /\ UNCHANGED <<lpc, cur, reg, sentCur, fanCur, repl, stored, rcap, lastPut, repErr, rrem, rfail, rsent, rendv, spc, stop, lastid, canc, dclosed, got, rgot, regAt, lidKnown, mustGet, pubVars, downVars, ghost>>

\* removeSubscriber(sub): delete and close only what is registered
LoopRemove(s, present) ==
    /\ present = (s \in reg)
    /\ \/ lpc = "fan" /\ fanCur = s /\ fanStage = "remove" /\ fanCur' = None /\ fanStage' = "" /\ lpc' = lpc
       \/ lpc = "unsub" /\ cur = s /\ lpc' = "unsubdone" /\ UNCHANGED <<fanCur, fanStage>>
       \/ lpc = "closing" /\ present /\ UNCHANGED <<lpc, fanCur, fanStage>>
    /\ reg' = reg \ {s}
    /\ IF present THEN CloseDone(s) ELSE UNCHANGED <<dclosed, panicked>>
    /\ UNCHANGED <<cur, sentCur, repl, stored, rcap, lastPut, repErr, rrem, rfail, rsent, rendv, spc, stop, lastid, canc, dbuf, errOcc, got, rgot, unfl, regAt, lidKnown, mustGet, pubVars, downVars, late>>

\* ---- case sub := <-j.unsubscription  (rendezvous with the third select of Subscribe)
LoopUnsub(s) ==
    /\ lpc = "sel" /\ spc[s] = "s3"
    /\ lpc' = "unsub" /\ cur' = s /\ spc' = [spc EXCEPT ![s] = "s4"]
    /\ UNCHANGED <<reg, sentCur, fanCur, fanStage, repl, stored, rcap, lastPut, repErr, rrem, rfail, rsent, rendv, stop, lastid, canc, dbuf, dclosed, errOcc, got, rgot, unfl, regAt, lidKnown, mustGet, pubVars, downVars, ghost>>

\* ---- case <-j.done: return; deferred: closeSubscribers, close(j.closed)
LoopDone ==
    /\ lpc = "sel" /\ JDone
    /\ lpc' = "closing"
    /\ UNCHANGED <<cur, reg, sentCur, fanCur, fanStage, repl, stored, rcap, lastPut, repErr, rrem, rfail, rsent, rendv, subVars, pubVars, downVars, ghost>>

LoopExit ==
    /\ lpc = "closing" /\ reg = {}
    /\ lpc' = "dead" /\ jclosed' = TRUE
    /\ UNCHANGED <<cur, reg, sentCur, fanCur, fanStage, repl, stored, rcap, lastPut, repErr, rrem, rfail, rsent, rendv, subVars, pubVars, kpc, kctx, att, okd, ghost>>

-----------------------------------------------------------------------------
(* Publish                                                                 *)

CallPub(p, topics) ==
    /\ ppc[p] = "idle" /\ (PubAfter[p] # None => ppc[PubAfter[p]] = "ret")
    /\ ppc' = [ppc EXCEPT ![p] = "p1"] /\ ptop' = [ptop EXCEPT ![p] = topics]
    /\ UNCHANGED <<loopVars, subVars, prep, pret, accepted, lastPutOK, downVars, ghost>>

PubClosed(p) ==
    /\ ppc[p] = "p1" /\ JDone
    /\ ppc' = [ppc EXCEPT ![p] = "r_closed"]
    /\ UNCHANGED <<loopVars, subVars, ptop, prep, pret, accepted, lastPutOK, downVars, ghost>>

\* Publish returns: the Put error if there was one (C17), ErrProviderClosed if refused
RetPub(p, v) ==
    /\ \/ ppc[p] = "pw" /\ prep[p] # "no" /\ v = prep[p]
       \/ ppc[p] = "r_closed" /\ v = "closed"
    /\ ppc' = [ppc EXCEPT ![p] = "ret"] /\ pret' = [pret EXCEPT ![p] = v]
    /\ UNCHANGED <<loopVars, subVars, ptop, prep, accepted, lastPutOK, downVars, ghost>>

-----------------------------------------------------------------------------
(* Shutdown                                                                *)

CallDown(k, ctxDone) ==
    /\ kpc[k] = "idle"
    /\ kpc' = [kpc EXCEPT ![k] = "k1"] /\ kctx' = IF ctxDone THEN kctx \cup {k} ELSE kctx
    /\ UNCHANGED <<loopVars, subVars, pubVars, att, okd, jclosed, ghost>>

\* about to close(j.done)
DownPre(k) ==
    /\ kpc[k] = "k1"
    /\ kpc' = [kpc EXCEPT ![k] = "k2"] /\ att' = att \cup {k}
    /\ UNCHANGED <<loopVars, subVars, pubVars, kctx, okd, jclosed, ghost>>

\* the close succeeded: at most one call ever gets here
DownOK(k) ==
    /\ kpc[k] = "k2" /\ okd = None
    /\ okd' = k /\ kpc' = [kpc EXCEPT ![k] = "kw"]
    /\ UNCHANGED <<loopVars, subVars, pubVars, kctx, att, jclosed, ghost>>

\* the close panicked (somebody else closed) and was recovered: ErrProviderClosed
DownRecovered(k) ==
    /\ kpc[k] = "k2" /\ (okd # None \/ \E k2 \in Downs \ {k} : kpc[k2] = "k2")
    /\ kpc' = [kpc EXCEPT ![k] = "r_closed"]
    /\ UNCHANGED <<loopVars, subVars, pubVars, kctx, att, okd, jclosed, ghost>>

DownClosed(k) ==
    /\ kpc[k] = "kw" /\ jclosed
    /\ kpc' = [kpc EXCEPT ![k] = "r_nil"]
    /\ UNCHANGED <<loopVars, subVars, pubVars, kctx, att, okd, jclosed, ghost>>

DownCtx(k) ==
    /\ kpc[k] = "kw" /\ k \in kctx
    /\ kpc' = [kpc EXCEPT ![k] = "r_ctx"]
    /\ UNCHANGED <<loopVars, subVars, pubVars, kctx, att, okd, jclosed, ghost>>

RetDown(k, v) ==
    /\ kpc[k] = "r_" \o v
    /\ kpc' = [kpc EXCEPT ![k] = "ret"]
    /\ UNCHANGED <<loopVars, subVars, pubVars, kctx, att, okd, jclosed, ghost>>

-----------------------------------------------------------------------------
(* Properties                                                              *)

IsPrefix(a, b) == Len(a) <= Len(b) /\ SubSeq(b, 1, Len(a)) = a
Returned(s) == spc[s] = "ret"

\* C06: no double close; a subscriber's writer is never touched after its Subscribe returned
NoPanic == ~panicked
NoLateCall == ~late

\* C03: each registered subscriber gets, once and in acceptance order, the matching messages accepted after
\* its registration - never anything else
Delivery ==
    \A s \in Subs :
        IF regAt[s] < 0 THEN got[s] = <<>>
        ELSE IsPrefix(got[s], SelectSeq(SubSeq(accepted, regAt[s] + 1, Len(accepted)), LAMBDA p : Match(s, p)))
\* ... and all of them by the time the loop is idle again, as long as it is registered
Complete ==
    \A s \in Subs :
        (lpc = "sel" /\ s \in reg) =>
            got[s] = SelectSeq(SubSeq(accepted, regAt[s] + 1, Len(accepted)), LAMBDA p : Match(s, p))
\* C03: one publisher's messages are accepted in program order
ProgramOrder ==
    \A p \in Pubs : (PubAfter[p] # None /\ InSeq(p, accepted)) =>
        (InSeq(PubAfter[p], accepted) => IndexOf(PubAfter[p], accepted) < IndexOf(p, accepted))
\* C03: every Send is followed by a Flush before Joe goes idle
Flushed == lpc = "sel" => unfl = {}

\* C04: replay ++ live is exactly the matching messages after the presented ID: no gap, duplicate or
\* reordering at the boundary, whatever Publish calls run concurrently
Resume ==
    \A s \in Subs :
        (regAt[s] >= 0 /\ lidKnown[s] /\ repl = "alive" /\ \A i \in 1..Len(accepted) : lastPutOK[i]) =>
            LET all == SelectSeq(SubSeq(accepted, IndexOf(lastid[s], accepted) + 1, Len(accepted)), LAMBDA p : Match(s, p))
            IN IsPrefix(rgot[s] \o got[s], all)
NoDuplicates == \A s \in Subs : LET d == rgot[s] \o got[s] IN \A i, j \in 1..Len(d) : i # j => d[i] # d[j]
\* C17: a failing subscriber or replayer affects nobody else: Delivery / Complete above quantify over every
\* subscriber that has not itself failed, whatever the others do; a Put error reaches that Publish and nobody
\* else, and the message is still delivered live
PutError == \A p \in Pubs : ppc[p] = "ret" /\ pret[p] = "puterr" => InSeq(p, accepted) /\ ~InSeq(p, stored)
\* C07
AllDone == /\ \A s \in Subs : spc[s] \in {"idle", "ret"}
           /\ \A p \in Pubs : ppc[p] \in {"idle", "ret"}
           /\ \A k \in Downs : kpc[k] \in {"idle", "ret"}
           /\ lpc = "dead"
\* the closer gets nil (or its context's error), everybody else ErrProviderClosed
ShutdownValues ==
    \A k \in Downs : kpc[k] \in {"r_nil", "r_ctx"} => okd = k
AtMostOneCloser == Cardinality({k \in Downs : kpc[k] \in {"kw", "r_nil", "r_ctx"}}) <= 1
\* no deadlock: TLC's deadlock check, with Idle as the only way to stay put: a state in which nothing can
\* move has every call returned or not started (a Subscribe may wait for its subscription to end)
=============================================================================
