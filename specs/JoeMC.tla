-------------------------------- MODULE JoeMC --------------------------------
(***************************************************************************)
(* Joe.tla under all interleavings: the environment's choices (topics,     *)
(* presented IDs, which calls fail, which contexts are cancelled) are      *)
(* bounded constants; TLC checks Joe.tla's safety properties in every      *)
(* reachable state, deadlock freedom, and - under weak fairness of every   *)
(* step a process can take on its own - that after Shutdown every call     *)
(* returns and Joe's goroutine exits (C07).                                *)
(***************************************************************************)
EXTENDS Joe


CONSTANTS SubTopics, PubTopics,   \* [Subs -> topic sets], [Pubs -> topic sets]
          LastIDs,                \* [Subs -> Pubs \cup {None}]
          FaultBudget,            \* failing Send / Flush / Put / Replay calls per behaviour
          CancelSubs, CtxDowns    \* subscribers whose context may be cancelled; Shutdown calls with a done context

VARIABLE nfaults
mcvars == <<vars, nfaults>>

MCInit == Init /\ nfaults = 0

Fault(ok) == IF ok THEN nfaults' = nfaults ELSE nfaults < FaultBudget /\ nfaults' = nfaults + 1

Quiescent == /\ \A s \in Subs : spc[s] \in {"idle", "ret", "s2"}
             /\ \A p \in Pubs : ppc[p] \in {"idle", "ret"}
             /\ \A k \in Downs : kpc[k] \in {"idle", "ret"}
Idle == (Quiescent \/ panicked) /\ UNCHANGED mcvars

MCNext ==
    \/ \E s \in Subs :
          \/ CallSub(s, SubTopics[s], LastIDs[s]) /\ UNCHANGED nfaults
          \/ S1Closed(s) /\ UNCHANGED nfaults
          \/ LoopSub(s) /\ UNCHANGED nfaults
          \/ RBegin(s) /\ UNCHANGED nfaults
          \/ \E v \in {"nil", "err"} : (RecvDone(s, "s2", v) \/ RecvDone(s, "s3", v) \/ RecvDone(s, "s4", v)) /\ UNCHANGED nfaults
          \/ S2Ctx(s) /\ UNCHANGED nfaults
          \/ (s \in CancelSubs /\ s \notin canc /\ spc[s] \in {"s1", "s2"} /\ Cancel(s) /\ UNCHANGED nfaults)
          \/ \E v \in {"nil", "err", "closed"} : RetSub(s, v) /\ UNCHANGED nfaults
          \/ \E p \in Pubs, ok \in BOOLEAN : Send(s, p, ok) /\ Fault(ok)
          \/ \E ok \in BOOLEAN : Flush(s, ok) /\ Fault(ok)
          \/ \E v \in {"nil", "err", "replayerr", "panic"} : REnd(s, v) /\ Fault(v \in {"nil", "err"})
          \/ LoopSubFail(s) /\ UNCHANGED nfaults
          \/ LoopRegister(s) /\ UNCHANGED nfaults
          \/ LoopFail(s) /\ UNCHANGED nfaults
          \/ \E pr \in BOOLEAN : LoopRemove(s, pr) /\ UNCHANGED nfaults
          \/ LoopUnsub(s) /\ UNCHANGED nfaults
    \/ \E p \in Pubs :
          \/ CallPub(p, PubTopics[p]) /\ UNCHANGED nfaults
          \/ PubClosed(p) /\ UNCHANGED nfaults
          \/ LoopMsg(p) /\ UNCHANGED nfaults
          \/ \E v \in {"ok", "err", "panic"} : Put(p, v) /\ Fault(v = "ok")
          \/ ReplyErr(p) /\ UNCHANGED nfaults
          \/ Reply(p) /\ UNCHANGED nfaults
          \/ \E v \in {"nil", "puterr", "closed"} : RetPub(p, v) /\ UNCHANGED nfaults
    \/ \E k \in Downs :
          \/ CallDown(k, k \in CtxDowns) /\ UNCHANGED nfaults
          \/ DownPre(k) /\ UNCHANGED nfaults
          \/ DownOK(k) /\ UNCHANGED nfaults
          \/ DownRecovered(k) /\ UNCHANGED nfaults
          \/ DownClosed(k) /\ UNCHANGED nfaults
          \/ DownCtx(k) /\ UNCHANGED nfaults
          \/ \E v \in {"nil", "closed", "ctx"} : RetDown(k, v) /\ UNCHANGED nfaults
    \/ (LoopSelect \/ LoopDone \/ LoopExit) /\ UNCHANGED nfaults
    \/ Idle

MCSpec == MCInit /\ [][MCNext]_mcvars

\* every step of a process that can proceed on its own is eventually taken; Send / Flush return
\* (the environment's faults and cancellations are not obliged to happen)
Fairness ==
    /\ WF_mcvars((LoopSelect) /\ UNCHANGED nfaults) /\ WF_mcvars((LoopDone) /\ UNCHANGED nfaults) /\ WF_mcvars((LoopExit) /\ UNCHANGED nfaults)
    /\ \A s \in Subs :
          /\ WF_mcvars((S1Closed(s) \/ LoopSub(s)) /\ UNCHANGED nfaults) /\ WF_mcvars((RBegin(s) \/ LoopRegister(s) \/ LoopSubFail(s)) /\ UNCHANGED nfaults)
          /\ WF_mcvars((\E v \in {"nil", "err"} : RecvDone(s, "s2", v) \/ RecvDone(s, "s3", v) \/ RecvDone(s, "s4", v)) /\ UNCHANGED nfaults)
          /\ WF_mcvars((S2Ctx(s)) /\ UNCHANGED nfaults) /\ WF_mcvars((LoopUnsub(s)) /\ UNCHANGED nfaults)
          /\ WF_mcvars((\E v \in {"nil", "err", "closed"} : RetSub(s, v)) /\ UNCHANGED nfaults)
          /\ WF_mcvars((\E p \in Pubs : Send(s, p, TRUE)) /\ UNCHANGED nfaults) /\ WF_mcvars((Flush(s, TRUE)) /\ UNCHANGED nfaults) /\ WF_mcvars((REnd(s, "nil") \/ REnd(s, "err")) /\ UNCHANGED nfaults)
          /\ WF_mcvars((LoopFail(s)) /\ UNCHANGED nfaults) /\ WF_mcvars((\E pr \in BOOLEAN : LoopRemove(s, pr)) /\ UNCHANGED nfaults)
    /\ \A p \in Pubs :
          /\ WF_mcvars((PubClosed(p) \/ LoopMsg(p)) /\ UNCHANGED nfaults) /\ WF_mcvars((Put(p, "ok")) /\ UNCHANGED nfaults) /\ WF_mcvars((ReplyErr(p)) /\ UNCHANGED nfaults) /\ WF_mcvars((Reply(p)) /\ UNCHANGED nfaults)
          /\ WF_mcvars((\E v \in {"nil", "puterr", "closed"} : RetPub(p, v)) /\ UNCHANGED nfaults)
    /\ \A k \in Downs :
          /\ WF_mcvars((DownPre(k)) /\ UNCHANGED nfaults) /\ WF_mcvars((DownOK(k) \/ DownRecovered(k)) /\ UNCHANGED nfaults) /\ WF_mcvars((DownClosed(k) \/ DownCtx(k)) /\ UNCHANGED nfaults)
          /\ WF_mcvars((\E v \in {"nil", "closed", "ctx"} : RetDown(k, v)) /\ UNCHANGED nfaults)
FairSpec == MCSpec /\ Fairness


-----------------------------------------------------------------------------
\* after a replayer panic it is never used again
AfterPanic == [][repl = "dead" => repl' = "dead" /\ stored' = stored]_mcvars


\* once Shutdown was called, every pending call returns and Joe's goroutine exits
AllReturn == (\E k \in Downs : kpc[k] # "idle") ~> (panicked \/ AllDone)
=============================================================================
