------------------------------ MODULE Dispatch ------------------------------
(***************************************************************************)
(* client_connection.go: the callback registry of a Connection.            *)
(* SubscribeEvent(t) / SubscribeMessages (= type "") / SubscribeToAll hand *)
(* out fresh ids and removers that delete exactly that id; a dispatched    *)
(* event is passed once to every callback currently subscribed to its      *)
(* exact type and to every subscribe-to-all callback, and to no other.     *)
(* Removers are idempotent and may be stale (called after the same type    *)
(* was subscribed again).                                                  *)
(*                                                                         *)
(* Properties served: C13.                                                 *)
(***************************************************************************)
EXTENDS Integers, Sequences, FiniteSets, TLC, Json

CONSTANTS Types,     \* event types used ("" is the unnamed event)
          MaxCbs,    \* callbacks subscribed per history
          MaxOps     \* operations per history

VARIABLES cbs,       \* sequence of [kind |-> "type" | "all", typ |-> t, live |-> BOOLEAN]; index = callback number
          connected, \* Connect was called: events may flow
          lastop,    \* the last three operations (part of the view: every short path through the registry is
                     \* exported - an implementation's maps may depend on the order in which a state was reached)
          lastev,    \* the type of the last dispatched event before the operations in lastop ("-": none) - part of the view: what an
                     \* implementation remembers from one dispatch to the next (a cached lookup) must not matter
          stopped,   \* a callback ended the connection (cancelled the request's context) while its event was being dispatched:
                     \* no further event arrives, but that event still reaches every receiver
          hist       \* operations so far, each event with the callbacks that must be invoked
vars == <<cbs, connected, lastop, lastev, stopped, hist>>

Init == cbs = <<>> /\ connected = FALSE /\ lastop = <<>> /\ lastev = "-" /\ stopped = FALSE /\ hist = <<>>

Push(op) == /\ lastop' = (IF Len(lastop) < 3 THEN lastop ELSE Tail(lastop)) \o <<op>>
            /\ lastev' = IF Len(lastop) = 3 /\ Head(lastop)[1] = "event" THEN Head(lastop)[2] ELSE lastev

Live == {i \in 1..Len(cbs) : cbs[i].live}
Receivers(t) == {i \in Live : cbs[i].kind = "all" \/ (cbs[i].kind = "type" /\ cbs[i].typ = t)}

Can == Len(hist) < MaxOps

Subscribe(kind, t) ==
    /\ Can /\ Len(cbs) < MaxCbs
    /\ cbs' = Append(cbs, [kind |-> kind, typ |-> t, live |-> TRUE])
    /\ Push(<<"sub", kind, t>>)
    /\ hist' = Append(hist, [op |-> "sub", kind |-> kind, typ |-> t, cb |-> Len(cbs) + 1, recv |-> {}])
    /\ UNCHANGED <<connected, stopped>>

\* calling a remover: of a live callback, or again, or a stale one
Unsubscribe(i) ==
    /\ Can /\ i \in 1..Len(cbs)
    /\ cbs' = [cbs EXCEPT ![i].live = FALSE]
    /\ Push(<<"unsub", i, cbs[i].live>>)
    /\ hist' = Append(hist, [op |-> "unsub", kind |-> "", typ |-> "", cb |-> i, recv |-> {}])
    /\ UNCHANGED <<connected, stopped>>

Connect ==
    /\ Can /\ ~connected
    /\ connected' = TRUE /\ Push(<<"connect">>)
    /\ hist' = Append(hist, [op |-> "connect", kind |-> "", typ |-> "", cb |-> 0, recv |-> {}])
    /\ UNCHANGED <<cbs, stopped>>

\* an event of type t arrives: exactly Receivers(t) are invoked, each once
Event(t) ==
    /\ Can /\ connected /\ ~stopped
    /\ Push(<<"event", t>>)
    /\ hist' = Append(hist, [op |-> "event", kind |-> "", typ |-> t, cb |-> 0, recv |-> Receivers(t)])
    /\ UNCHANGED <<cbs, connected, stopped>>

\* the same, and every callback invoked for it cancels the request's context (a terminal event): dispatch of that event is not cut short
EventAndStop(t) ==
    /\ Can /\ connected /\ ~stopped /\ Cardinality(Receivers(t)) >= 2
    /\ Push(<<"event", t>>)
    /\ stopped' = TRUE
    /\ hist' = Append(hist, [op |-> "event", kind |-> "stop", typ |-> t, cb |-> 0, recv |-> Receivers(t)])
    /\ UNCHANGED <<cbs, connected>>

\* the stream ends right after the event's last field line, before the blank line: the pending event is dispatched at the
\* end of input (event.go's read does so, see Stream.tla), to the callbacks of its type like any other
EventAtEnd(t) ==
    /\ Can /\ connected /\ ~stopped /\ Receivers(t) # {}
    /\ Push(<<"event", t>>)
    /\ stopped' = TRUE
    /\ hist' = Append(hist, [op |-> "event", kind |-> "atend", typ |-> t, cb |-> 0, recv |-> Receivers(t)])
    /\ UNCHANGED <<cbs, connected>>

Next ==
    \/ \E t \in Types : Subscribe("type", t) \/ Event(t) \/ EventAndStop(t) \/ EventAtEnd(t)
    \/ Subscribe("all", "")
    \/ \E i \in 1..Len(cbs) : Unsubscribe(i)
    \/ Connect

Spec == Init /\ [][Next]_vars

\* two histories that leave the registry in the same state through the same last operation are explored once
View == <<cbs, connected, lastop, lastev, stopped>>

-----------------------------------------------------------------------------
\* a removed callback is never invoked again, and removing one never affects another subscription
RemovedStaysRemoved == [][\A i \in 1..Len(cbs) : ~cbs[i].live => ~cbs'[i].live]_vars
OthersUnaffected ==
    [][\A i \in 1..Len(cbs) : (\E j \in 1..Len(cbs) : j # i /\ lastop' # <<>> /\ lastop'[Len(lastop')][1] = "unsub" /\ lastop'[Len(lastop')][2] = j) => cbs'[i] = cbs[i]]_vars
\* every event reaches exactly the callbacks of its type and the subscribe-to-all ones
Routing == \A k \in 1..Len(hist) : hist[k].op = "event" =>
              \A i \in hist[k].recv : cbs[i].kind = "all" \/ cbs[i].typ = hist[k].typ

Export == hist # <<>> => PrintT(ToJson([ops |-> hist]))
=============================================================================
