---------------------------- MODULE TokenizerCore ----------------------------
(***************************************************************************)
(* internal/parser at implementation grain: the scanner's split function   *)
(* (splitFunc as written: rescans from the token start, drops leading      *)
(* blank lines, hands out a chunk at a double line end or at the end of    *)
(* input), the wrapper in parser.New that decides once whether a BOM may   *)
(* be stripped, Parser.Next looping over chunks, and FieldParser.Next      *)
(* cutting a chunk into lines - over a token string that arrives in reads  *)
(* cut at arbitrary token boundaries.                                      *)
(*                                                                         *)
(* Refinement checked by TLC for every input and every segmentation:       *)
(* feeding the fields this layer produces to the interpretation of         *)
(* event.go's read() gives exactly StreamCore's result, i.e. the           *)
(* implementation's structure (chunks, rescans, BOM flag) is invisible.    *)
(* Variants AsFound* re-introduce the pinned tree's defects D1 and D5 and   *)
(* must fail (they are the spec's own sensitivity tests).                  *)
(*                                                                         *)
(* Properties served: C01 (chunking independence), C11 (end conditions).   *)
(***************************************************************************)
EXTENDS StreamCore

CONSTANTS AsFoundBOM,     \* TRUE: strip the BOM on the first chunk even if blank lines were skipped before it (D1)
          AsFoundNext,    \* TRUE: Parser.Next gives up when one chunk yields no field (D5)
          EagerFirst      \* TRUE: the "first chunk" decision is consumed by a split call that only asks for more data (seeded change C01-a)

-----------------------------------------------------------------------------
(* splitFunc(data, atEOF) on a token sequence: returns [advance, start, token?] *)

\* NewlineIndex(s): index of the first line end (0-based distance) and its length (0 = none)
NLIndex(s) ==
    LET n == FirstNL(s) IN
    IF n = 0 THEN [index |-> Len(s), len |-> 0]
    ELSE [index |-> n - 1, len |-> IF s[n] = "CR" /\ n < Len(s) /\ s[n + 1] = "LF" THEN 2 ELSE 1]

RECURSIVE SplitLoop(_, _, _)
SplitLoop(data, advance, start) ==
    LET r == NLIndex(Drop(data, advance))
        adv1 == advance + r.index + r.len
        st1 == IF r.index = 0 THEN start + r.len ELSE start
    IN IF adv1 = Len(data) \/ (IsNL(data[adv1 + 1]) /\ r.index > 0)
       THEN [advance |-> adv1, start |-> st1]
       ELSE SplitLoop(data, adv1, st1)

Split(data, atEOF) ==
    IF data = <<>> THEN [more |-> TRUE, advance |-> 0, start |-> 0]
    ELSE LET l == SplitLoop(data, 0, 0)
             n == Len(data)
         IN IF l.advance = n /\ ~atEOF THEN [more |-> TRUE, advance |-> 0, start |-> 0]
            ELSE IF l.advance < n THEN
                 LET a1 == l.advance + 1
                     a2 == IF a1 < n /\ data[a1] = "CR" /\ data[a1 + 1] = "LF" THEN a1 + 1 ELSE a1
                 IN [more |-> FALSE, advance |-> a2, start |-> l.start]
            ELSE [more |-> FALSE, advance |-> l.advance, start |-> l.start]

-----------------------------------------------------------------------------
(* The scanner: reads arrive at the cut points; Scan calls Split on what is buffered *)

\* chunks handed out for an input that arrives in the pieces given by `cuts` (ascending offsets), the
\* end of input being reported by a further read; each chunk is [text, first, clean]: `first` is the
\* wrapper's flag when the chunk was handed out, `clean` tells that no leading blank lines were skipped
\* (advance = len(token)), which is how the wrapper learns that the chunk starts at stream offset 0
RECURSIVE Scan(_, _, _, _, _, _, _)
Scan(input, cuts, pos, avail, eof, firstPending, acc) ==
    LET data == SubSeq(input, pos + 1, avail)
        r == IF data = <<>> /\ ~eof THEN [more |-> TRUE, advance |-> 0, start |-> 0]    \* bufio: nothing buffered, no split call
             ELSE Split(data, eof)
        called == ~(data = <<>> /\ ~eof)
        fp == IF EagerFirst /\ called THEN FALSE ELSE firstPending
    IN IF r.more THEN
          IF eof THEN acc
          ELSE IF avail < Len(input) THEN
               Scan(input, IF cuts = <<>> THEN <<>> ELSE Tail(cuts), pos, IF cuts = <<>> THEN Len(input) ELSE Head(cuts), FALSE, fp, acc)
          ELSE Scan(input, cuts, pos, avail, TRUE, fp, acc)
       ELSE LET tok == SubSeq(data, r.start + 1, r.advance)
                chunk == [text |-> tok, first |-> firstPending, clean |-> r.advance = Len(tok)]
            IN IF r.advance = 0 THEN Append(acc, chunk)      \* an empty token at the end of input
               ELSE Scan(input, cuts, pos + r.advance, avail, eof, FALSE, Append(acc, chunk))

Chunks(input, cuts) == Scan(input, cuts, 0, 0, FALSE, TRUE, <<>>)

-----------------------------------------------------------------------------
(* FieldParser over one chunk and Parser.Next over the chunks: the field sequence *)

\* fields of one chunk: [name, val] per terminated line that is a field or a blank line; eof = an unterminated rest
RECURSIVE ChunkFields(_, _)
ChunkFields(text, acc) ==
    IF text = <<>> THEN [fields |-> acc, eof |-> FALSE]
    ELSE LET n == FirstNL(text) IN
         IF n = 0 THEN [fields |-> acc, eof |-> TRUE]
         ELSE LET line == SubSeq(text, 1, n - 1)
                  skip == IF text[n] = "CR" /\ n < Len(text) /\ text[n + 1] = "LF" THEN n + 1 ELSE n
                  c == FirstColon(line)
                  name == IF c = 0 THEN line ELSE SubSeq(line, 1, c - 1)
                  val == IF c = 0 THEN <<>> ELSE TrimSP(Drop(line, c))
                  isField == name \in {<<"data">>, <<"event">>, <<"id">>, <<"retry">>} \/ line = <<>>
              IN ChunkFields(Drop(text, skip), IF isField THEN Append(acc, [name |-> name, val |-> val]) ELSE acc)

\* the BOM is stripped from the first chunk only - and only if that chunk starts the stream
StripIfFirst(ch, isFirstChunk) ==
    \* the wrapper disables the removal when it sees, on the first chunk, that blank lines were skipped; if its
    \* one-shot flag is already spent (EagerFirst) it does not look and the removal stays enabled
    IF isFirstChunk /\ (AsFoundBOM \/ ~ch.first \/ ch.clean) /\ ch.text # <<>> /\ ch.text[1] = "BOM"
    THEN Drop(ch.text, 1) ELSE ch.text

\* Parser.Next over all chunks: [fields, status] with status "eof" | "unexpected_eof" | "stopped" (D5: returned
\* false without having reached the end)
RECURSIVE AllFields(_, _, _)
AllFields(chunks, k, acc) ==
    IF k > Len(chunks) THEN [fields |-> acc, status |-> "eof"]
    ELSE LET cf == ChunkFields(StripIfFirst(chunks[k], k = 1), <<>>) IN
         IF cf.eof THEN [fields |-> acc \o cf.fields, status |-> "unexpected_eof"]
         ELSE IF AsFoundNext /\ cf.fields = <<>> THEN [fields |-> acc, status |-> "stopped"]
         ELSE AllFields(chunks, k + 1, acc \o cf.fields)

-----------------------------------------------------------------------------
(* event.go read() over the field sequence *)

RECURSIVE ReadFields(_, _, _)
ReadFields(fs, st, mode) ==
    IF fs = <<>> THEN st
    ELSE LET f == Head(fs)
             s1 == IF f.name = <<>> /\ f.val = <<>> THEN       \* blank line: dispatch
                        [st EXCEPT !.out = IF st.dirty THEN Append(st.out, Event(st)) ELSE st.out,
                                   !.data = <<>>, !.hasData = FALSE, !.type = <<>>, !.dirty = FALSE]
                   ELSE IF f.name = <<"data">> THEN [st EXCEPT !.data = st.data \o f.val \o <<"LF">>, !.hasData = TRUE, !.dirty = TRUE]
                   ELSE IF f.name = <<"event">> THEN [st EXCEPT !.type = f.val, !.dirty = TRUE]
                   ELSE IF f.name = <<"id">> THEN (IF HasNUL(f.val) THEN st ELSE [st EXCEPT !.lastId = f.val, !.dirty = TRUE])
                   ELSE IF f.name = <<"retry">> /\ AllDigits(f.val) /\ mode = "conn" THEN [st EXCEPT !.dirty = TRUE]
                   ELSE st
         IN ReadFields(Tail(fs), s1, mode)

\* the observable result of the implementation-shaped pipeline for a clean end of input
Impl(input, cuts, mode) ==
    LET af == AllFields(Chunks(input, cuts), 1, <<>>)
        st == ReadFields(af.fields, InitSt(<<>>, <<>>), mode)
    IN [out |-> IF af.status = "eof" /\ st.dirty THEN Append(st.out, Event(st)) ELSE st.out,
        status |-> af.status]

Ref(input, mode) == LET r == Interpret(input, "clean", mode, <<>>) IN [out |-> r.out, status |-> r.status]

=============================================================================
