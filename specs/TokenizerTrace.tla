---------------------------- MODULE TokenizerTrace ----------------------------
(***************************************************************************)
(* Direction B for the tokenizer layer: the chunks the real scanner handed *)
(* to the field parser (verif hook in internal/parser) for an input that   *)
(* arrived cut at the recorded token boundaries, validated against         *)
(* TokenizerCore's Chunks, together with the events sse.Read yielded.      *)
(***************************************************************************)
EXTENDS TokenizerCore, IOUtils

Cases == ndJsonDeserialize(IOEnv.CASES)

VARIABLE l
vars == <<l>>

Texts(chs) == [i \in 1..Len(chs) |-> chs[i].text]

Check(c) ==
    /\ Texts(Chunks(c.input, c.cuts)) = c.chunks                       \* the same chunks, whatever the read boundaries
    /\ LET r == Impl(c.input, c.cuts, "read")
           evs == [i \in 1..Len(r.out) |-> [id |-> r.out[i].id, type |-> r.out[i].type, data |-> r.out[i].data]]
       IN evs = c.events /\ r.status = c.status

Init == l = 1
Next == l <= Len(Cases) /\ Check(Cases[l]) /\ l' = l + 1
Spec == Init /\ [][Next]_vars

ASSUME TLCSet(1, 0)
HighWater == TLCSet(1, IF l > TLCGet(1) THEN l ELSE TLCGet(1))
Accepted == IF TLCGet(1) = Len(Cases) + 1 THEN TRUE
            ELSE Print(<<"REJECTED at case", TLCGet(1), Cases[TLCGet(1)]>>, FALSE)
=============================================================================
