------------------------------ MODULE JoeTrace ------------------------------
(***************************************************************************)
(* Direction B for Joe: traces recorded from the real Joe (hook points of  *)
(* the verif build + the driver's own events, DESIGN.md 2.4 / 5.1) are     *)
(* replayed through Joe.tla's actions.  Every event is bound to exactly    *)
(* one action with its logged arguments, so validation is linear in the    *)
(* trace length; a trace in which the implementation does something Joe's  *)
(* specification does not allow - a Send to a subscriber that is not       *)
(* registered or does not match, a second Send of one message, a missing   *)
(* Flush, a replay that differs from the missed events, a call on a writer *)
(* whose Subscribe returned, an error replaced by nil, a second close ...  *)
(* - has no matching action and is rejected at that line.  Joe.tla's       *)
(* invariants are evaluated in every state the implementation went through.*)
(* Many scenarios are concatenated; a "reset" event starts the next one.   *)
(***************************************************************************)
EXTENDS Joe, Json, IOUtils

Trace == ndJsonDeserialize(IOEnv.TRACE)

VARIABLES l,        \* position in Trace
          auto,     \* the scenario's replayer assigns IDs
          pid       \* ID given to a message by the replayer's Put (automatic IDs)
tvars == <<vars, l, auto, pid>>

E == Trace[l]
Ev(e) == l <= Len(Trace) /\ E.e = e /\ l' = l + 1
ToSet(sq) == {sq[i] : i \in 1..Len(sq)}
Keep == UNCHANGED <<auto, pid>>

\* identities come from the trace itself
TraceSubs  == {Trace[i].s : i \in {j \in 1..Len(Trace) : "s" \in DOMAIN Trace[j]}}
TracePubs  == {Trace[i].p : i \in {j \in 1..Len(Trace) : "p" \in DOMAIN Trace[j]}}
TraceDowns == {Trace[i].k : i \in {j \in 1..Len(Trace) : "k" \in DOMAIN Trace[j]}}
NoneVal == "<none>"
\* program order inside one publishing goroutine, as logged with every call.pub
TracePubAfter == [p \in TracePubs |->
                    LET J == {j \in 1..Len(Trace) : Trace[j].e = "call.pub" /\ Trace[j].p = p}
                    IN IF J = {} THEN NoneVal ELSE Trace[CHOOSE j \in J : TRUE].after]

TraceInit == Init /\ l = 1 /\ auto = FALSE /\ pid = [p \in TracePubs |-> ""]

\* a new scenario: everything back to the initial state (with or without a recording replayer)
Reset ==
    /\ Ev("reset")
    /\ lpc' = "init" /\ cur' = None /\ reg' = {} /\ sentCur' = {} /\ fanCur' = None /\ fanStage' = ""
    /\ repl' = (IF E.replayer = "none" THEN "none" ELSE "alive") /\ stored' = <<>> /\ rcap' = E.cap /\ lastPut' = "" /\ repErr' = FALSE
    /\ rrem' = <<>> /\ rfail' = FALSE /\ rsent' = FALSE /\ rendv' = ""
    /\ spc' = [s \in Subs |-> "idle"] /\ stop' = [s \in Subs |-> {}] /\ lastid' = [s \in Subs |-> None]
    /\ canc' = {} /\ dbuf' = [s \in Subs |-> "none"] /\ dclosed' = {} /\ errOcc' = {}
    /\ got' = [s \in Subs |-> <<>>] /\ rgot' = [s \in Subs |-> <<>>] /\ unfl' = {}
    /\ regAt' = [s \in Subs |-> -1] /\ lidKnown' = [s \in Subs |-> FALSE] /\ mustGet' = [s \in Subs |-> {}]
    /\ ppc' = [p \in Pubs |-> "idle"] /\ ptop' = [p \in Pubs |-> {}] /\ prep' = [p \in Pubs |-> "no"] /\ pret' = [p \in Pubs |-> ""]
    /\ accepted' = <<>> /\ lastPutOK' = <<>>
    /\ kpc' = [k \in Downs |-> "idle"] /\ kctx' = {} /\ att' = {} /\ okd' = None /\ jclosed' = FALSE
    /\ panicked' = FALSE /\ late' = FALSE
    /\ auto' = E.auto /\ pid' = [p \in TracePubs |-> ""]

\* the ID a delivered message carries is the one the replayer's Put gave it (automatic IDs) - the same whether it is
\* received live or by replay (C04) - else the publisher's own
SeenID == IF E.idset THEN E.id ELSE "<unset>"
IdOK(p) == IF pid[p] # "" THEN SeenID = pid[p]
           ELSE IF auto THEN TRUE
           ELSE E.idset /\ E.id = p

TraceNext ==
    \/ Reset
    \/ Ev("call.sub") /\ CallSub(E.s, ToSet(E.t), IF E.lidname = "" THEN None ELSE E.lidname) /\ Keep
    \/ Ev("sub.s1.closed") /\ S1Closed(E.s) /\ Keep
    \/ Ev("sub.s2.done") /\ RecvDone(E.s, "s2", E.v) /\ Keep
    \/ Ev("sub.s3.done") /\ RecvDone(E.s, "s3", E.v) /\ Keep
    \/ Ev("sub.s4.done") /\ RecvDone(E.s, "s4", E.v) /\ Keep
    \/ Ev("sub.s2.ctx") /\ S2Ctx(E.s) /\ Keep
    \/ Ev("cancel") /\ Cancel(E.s) /\ Keep
    \/ Ev("ret.sub") /\ RetSub(E.s, E.v) /\ Keep
    \/ Ev("loop.select") /\ LoopSelect /\ Keep
    \/ Ev("loop.sub") /\ LoopSub(E.s) /\ Keep
    \/ Ev("rbegin") /\ RBegin(E.s) /\ Keep
    \/ Ev("send") /\ Send(E.s, E.p, E.ok) /\ IdOK(E.p) /\ Keep
    \/ Ev("flush") /\ Flush(E.s, E.ok) /\ Keep
    \/ Ev("rend") /\ REnd(E.s, E.v) /\ Keep
    \/ Ev("loop.subfail") /\ LoopSubFail(E.s) /\ Keep
    \/ Ev("loop.register") /\ LoopRegister(E.s) /\ Keep
    \/ Ev("loop.msg") /\ LoopMsg(E.p) /\ Keep
    \/ Ev("put") /\ Put(E.p, E.v) /\ auto' = auto /\ pid' = IF E.v = "ok" /\ auto THEN [pid EXCEPT ![E.p] = SeenID] ELSE pid
    \/ Ev("loop.reply.err") /\ ReplyErr(E.p) /\ Keep
    \/ Ev("loop.reply") /\ Reply(E.p) /\ Keep
    \/ Ev("loop.fail") /\ LoopFail(E.s) /\ Keep
    \/ Ev("loop.remove") /\ LoopRemove(E.s, E.present) /\ Keep
    \/ Ev("loop.unsub") /\ LoopUnsub(E.s) /\ Keep
    \/ Ev("loop.done") /\ LoopDone /\ Keep
    \/ Ev("loop.exit") /\ LoopExit /\ Keep
    \* (a Message object published again carries the ID it was given for its first publication: "wantid")
    \/ Ev("call.pub") /\ CallPub(E.p, ToSet(E.t)) /\ auto' = auto
                      /\ pid' = IF "wantid" \in DOMAIN E THEN [pid EXCEPT ![E.p] = E.wantid] ELSE pid
    \/ Ev("pub.closed") /\ PubClosed(E.p) /\ Keep
    \/ Ev("ret.pub") /\ RetPub(E.p, E.v) /\ Keep
    \/ Ev("call.down") /\ CallDown(E.k, E.ctxdone) /\ Keep
    \/ Ev("down.pre") /\ DownPre(E.k) /\ Keep
    \/ Ev("down.ok") /\ DownOK(E.k) /\ Keep
    \/ Ev("down.recovered") /\ DownRecovered(E.k) /\ Keep
    \/ Ev("down.closed") /\ DownClosed(E.k) /\ Keep
    \/ Ev("down.ctx") /\ DownCtx(E.k) /\ Keep
    \/ Ev("ret.down") /\ RetDown(E.k, E.v) /\ Keep

Spec == TraceInit /\ [][TraceNext]_tvars

\* when a scenario ends (the next event is a reset, or the trace is over) every call has returned and
\* Joe's goroutine is gone (C07)
ScenarioEnd == l > Len(Trace) \/ Trace[l].e = "reset"
AllReturned == (ScenarioEnd /\ l > 1) =>
                  /\ \A s \in Subs : spc[s] \in {"idle", "ret"}
                  /\ \A p \in Pubs : ppc[p] \in {"idle", "ret"}
                  /\ \A k \in Downs : kpc[k] \in {"idle", "ret"}
                  /\ lpc = "dead"

ASSUME TLCSet(1, 0)
HighWater == TLCSet(1, IF l > TLCGet(1) THEN l ELSE TLCGet(1))
Accepted == IF TLCGet(1) = Len(Trace) + 1 THEN TRUE
            ELSE Print(<<"REJECTED at line", TLCGet(1), Trace[TLCGet(1)]>>, FALSE)
=============================================================================
