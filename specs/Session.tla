------------------------------ MODULE Session ------------------------------
(***************************************************************************)
(* session.go / server.go: the HTTP side of the protocol.                  *)
(*                                                                         *)
(* Part 1 - Session.Send / Session.Flush / doUpgrade over a ResponseWriter *)
(* whose every call may fail: the abstract log of what reaches the         *)
(* underlying writer (header set, flush ok/failed, body bytes of message i *)
(* complete or cut) and what each call returns.                            *)
(* Part 2 - Server.ServeHTTP: Upgrade (writer shapes), OnSession's verdict *)
(* and topics, the Last-Event-ID header, the provider's answer.            *)
(*                                                                         *)
(* Properties served: C16.                                                 *)
(***************************************************************************)
EXTENDS Integers, Sequences, FiniteSets, TLC, Json

CONSTANTS
    Shapes,     \* writer shapes explored: "flusher" (http.Flusher), "flusherr" (FlushError() error),
                \*   "wrap1" / "wrap2" (reach a flusherr through Unwrap), "wrapflusher" (reach a Flusher through Unwrap),
                \*   "both" (Flush() and FlushError(), like net/http's own writer: the error-reporting one must be used)
    Msgs,       \* messages that may be sent (abstract names; "empty" encodes to nothing)
    MaxOps,     \* Send / Flush calls per history
    Faults      \* fault plans: [kind |-> "none"] | [kind |-> "flush", n |-> k] (the k-th underlying flush fails)
                \*            | [kind |-> "write", n |-> k] (a write of the k-th Send that writes fails half-way)

VARIABLES shape, fault,
          didUpgrade,
          log,       \* what reached the underlying writer: <<"H">>, <<"F", ok>>, <<"W", msg, "full" | "cut">>
          nflush,    \* underlying flushes so far
          nwsend,    \* Sends that reached writing so far
          failed,    \* an underlying call has failed
          dirty,     \* body bytes were written since the last successful flush
          hist       \* the calls and what they returned
vars == <<shape, fault, didUpgrade, log, nflush, nwsend, failed, dirty, hist>>

CanFailFlush(sh) == sh \in {"flusherr", "wrap1", "wrap2", "both"}     \* http.Flusher.Flush reports nothing

Init ==
    /\ shape \in Shapes /\ fault \in Faults
    /\ (fault.kind = "flush" => CanFailFlush(shape))
    /\ didUpgrade = FALSE /\ log = <<>> /\ nflush = 0 /\ nwsend = 0 /\ failed = FALSE /\ dirty = FALSE /\ hist = <<>>

FlushFails(k) == fault.kind = "flush" /\ fault.n = k
WriteFails(k) == fault.kind = "write" /\ fault.n = k

\* doUpgrade: set the header, flush, remember - only if the flush worked
\* returns [up, log, nflush, err]
DoUpgrade ==
    IF didUpgrade THEN [up |-> TRUE, log |-> log, nflush |-> nflush, err |-> FALSE, did |-> FALSE]
    ELSE LET bad == FlushFails(nflush + 1) IN
         [up |-> ~bad, log |-> log \o <<<<"H">>, <<"F", ~bad>>>>, nflush |-> nflush + 1, err |-> bad, did |-> TRUE]

Send(m) ==
    /\ Len(hist) < MaxOps
    /\ LET u == DoUpgrade IN
       IF u.err THEN
          /\ didUpgrade' = FALSE /\ log' = u.log /\ nflush' = u.nflush /\ failed' = TRUE
          /\ hist' = Append(hist, [op |-> "send", m |-> m, err |-> TRUE, where |-> "upgrade"]) /\ UNCHANGED <<nwsend, dirty>>
       ELSE IF m = "empty" THEN      \* nothing to write: no Write at all
          /\ didUpgrade' = TRUE /\ log' = u.log /\ nflush' = u.nflush
          /\ hist' = Append(hist, [op |-> "send", m |-> m, err |-> FALSE, where |-> ""]) /\ UNCHANGED <<nwsend, failed, dirty>>
       ELSE LET bad == WriteFails(nwsend + 1) IN
          /\ didUpgrade' = TRUE /\ nflush' = u.nflush /\ nwsend' = nwsend + 1
          /\ log' = Append(u.log, <<"W", m, IF bad THEN "cut" ELSE "full">>)
          /\ failed' = (failed \/ bad) /\ dirty' = TRUE
          /\ hist' = Append(hist, [op |-> "send", m |-> m, err |-> bad, where |-> IF bad THEN "write" ELSE ""])
    /\ UNCHANGED <<shape, fault>>

\* Flush: right after the upgrade its flush is the flush; otherwise flush the writer.
\* A Flush with nothing to push (no upgrade pending, no body byte since the last successful flush) is left
\* unspecified: the property does not say whether it reaches the writer (the code forwards it today), so such
\* calls are not generated.
Flush ==
    /\ Len(hist) < MaxOps
    /\ (didUpgrade => dirty)
    /\ LET u == DoUpgrade IN
       IF u.err THEN
          /\ didUpgrade' = FALSE /\ log' = u.log /\ nflush' = u.nflush /\ failed' = TRUE /\ UNCHANGED dirty
          /\ hist' = Append(hist, [op |-> "flush", m |-> "", err |-> TRUE, where |-> "upgrade"])
       ELSE IF u.did THEN
          /\ didUpgrade' = TRUE /\ log' = u.log /\ nflush' = u.nflush /\ UNCHANGED <<failed, dirty>>
          /\ hist' = Append(hist, [op |-> "flush", m |-> "", err |-> FALSE, where |-> ""])
       ELSE LET bad == FlushFails(nflush + 1) IN
          /\ didUpgrade' = TRUE /\ log' = Append(log, <<"F", ~bad>>) /\ nflush' = nflush + 1
          /\ failed' = (failed \/ bad) /\ dirty' = (dirty /\ bad)
          /\ hist' = Append(hist, [op |-> "flush", m |-> "", err |-> bad, where |-> IF bad THEN "flush" ELSE ""])
    /\ UNCHANGED <<shape, fault, nwsend>>

Next == Flush \/ \E m \in Msgs : Send(m)
Spec == Init /\ [][Next]_vars

-----------------------------------------------------------------------------
IsW(e) == e[1] = "W"
\* no body byte before the header was set and a flush of it succeeded
HeaderFirst ==
    \A i \in 1..Len(log) : IsW(log[i]) =>
        \E h \in 1..(i - 2) : log[h] = <<"H">> /\ log[h + 1] = <<"F", TRUE>>
\* the header is flushed successfully at most once (a failed attempt may be repeated)
UpgradeOnce == Cardinality({h \in 1..(Len(log) - 1) : log[h] = <<"H">> /\ log[h + 1] = <<"F", TRUE>>}) <= 1
\* the body is the concatenation of the sent messages' encodings, the failing one cut
BodyIsSends ==
    LET ws == SelectSeq(log, IsW)
        sends == SelectSeq(hist, LAMBDA h : h.op = "send" /\ h.m # "empty" /\ h.where # "upgrade")
    IN Len(ws) = Len(sends) /\ \A i \in 1..Len(ws) : ws[i][2] = sends[i].m /\ (ws[i][3] = "cut" <=> sends[i].err)
\* after a successful Flush nothing written is unflushed
FlushPushes ==
    (hist # <<>> /\ hist[Len(hist)].op = "flush" /\ ~hist[Len(hist)].err) =>
        \E f \in 1..Len(log) : log[f] = <<"F", TRUE>> /\ \A i \in (f + 1)..Len(log) : ~IsW(log[i])
\* the call in which the first underlying error occurs returns it
FirstError == (failed <=> \E k \in 1..Len(hist) : hist[k].err)

ExportRec == [shape |-> shape, fault |-> fault, ops |-> hist, log |-> log]
Export == hist # <<>> => PrintT(ToJson(ExportRec))
=============================================================================
