-------------------------------- MODULE Bytes --------------------------------
(***************************************************************************)
(* Byte strings as sequences of tokens.  TLC strings are atomic, so a byte *)
(* string is a sequence of tokens; a token is a special (LF, CR, COLON,    *)
(* SP, NUL, BOM) or a run of other bytes.  The expansion table below is    *)
(* the single source of truth: it is exported to the Go drivers, which     *)
(* expand tokens with it.  The ASSUMEs state the side conditions under     *)
(* which token-level interpretation coincides with byte-level              *)
(* interpretation (DESIGN.md 2.3); TLC checks them at start-up.            *)
(***************************************************************************)
EXTENDS Integers, Sequences, FiniteSets, TLC

\* explicit expansions (byte values)
Exp == [
    LF     |-> <<10>>,
    CR     |-> <<13>>,
    COLON  |-> <<58>>,
    SP     |-> <<32>>,
    NUL    |-> <<0>>,
    BOM    |-> <<239, 187, 191>>,
    data   |-> <<100, 97, 116, 97>>,
    id     |-> <<105, 100>>,
    event  |-> <<101, 118, 101, 110, 116>>,
    retry  |-> <<114, 101, 116, 114, 121>>,
    x      |-> <<120>>,
    y      |-> <<121>>,
    d1     |-> <<49>>,                      \* "1"
    d07    |-> <<48, 55>>,                  \* "07"
    d0     |-> <<48>>,                      \* "0"
    d2 |-> <<50>>, d3 |-> <<51>>, d4 |-> <<52>>, d5 |-> <<53>>, d6 |-> <<54>>, d7 |-> <<55>>, d8 |-> <<56>>, d9 |-> <<57>>,
    PLUS   |-> <<43>>,
    MINUS  |-> <<45>>,
    dat    |-> <<100, 97, 116>>,            \* look-alikes
    datax  |-> <<100, 97, 116, 97, 120>>,
    Data   |-> <<68, 97, 116, 97>>,
    message |-> <<109, 101, 115, 115, 97, 103, 101>>,
    FF     |-> <<255>>,                     \* invalid UTF-8
    EFBB   |-> <<239, 187>>,                \* partial BOM
    eacute |-> <<195, 169>>,                \* a two-byte rune
    TAB    |-> <<9>>,
    \* bytes and runes that Unicode-aware helpers (unicode.IsSpace, strings.TrimSpace / Fields, bufio.ScanLines) treat as
    \* white space or line breaks but the event-stream format does not: they are ordinary field bytes
    VT     |-> <<11>>,
    FORMFEED |-> <<12>>,
    NEL    |-> <<194, 133>>,                \* U+0085 next line
    NBSP   |-> <<194, 160>>,                \* U+00A0 no-break space
    LS     |-> <<226, 128, 168>>            \* U+2028 line separator
]

\* filler runs: one token each, so TLC never holds long sequences; byte 97 ("a") repeated
Fill == [
    F61    |-> 61,
    F4000  |-> 4000,
    F4090  |-> 4090,
    F4096  |-> 4096,
    F61440 |-> 61440,
    F65530 |-> 65530,
    F65536 |-> 65536
]

Tokens == DOMAIN Exp \cup DOMAIN Fill

Specials   == {"LF", "CR", "COLON", "SP", "NUL", "BOM"}
NameTokens == {"data", "id", "event", "retry"}
DigitTokens == {"d1", "d07", "d0", "d2", "d3", "d4", "d5", "d6", "d7", "d8", "d9"}
RunTokens  == Tokens \ Specials

TokLen(t) == IF t \in DOMAIN Exp THEN Len(Exp[t]) ELSE Fill[t]

RECURSIVE SeqLen(_)
SeqLen(s) == IF s = <<>> THEN 0 ELSE TokLen(Head(s)) + SeqLen(Tail(s))

InSeq(b, s) == \E i \in 1..Len(s) : s[i] = b

\* (i) bytes 10, 13, 58, 0 occur only in their special tokens
ASSUME \A t \in DOMAIN Exp \ {"LF", "CR", "COLON", "NUL"} : \A b \in {10, 13, 58, 0} : ~InSeq(b, Exp[t])
\* (ii) no run contains a space; BOM bytes occur only in BOM / EFBB / FF-free runs
ASSUME \A t \in DOMAIN Exp \ {"SP"} : ~InSeq(32, Exp[t])
\* (iii) no concatenation of up to three adjacent run tokens, other than a single name token, spells a field name
ASSUME \A a, b \in (DOMAIN Exp) \ Specials :
          \A n \in NameTokens : Exp[a] \o Exp[b] # Exp[n]
ASSUME \A a, b, c \in (DOMAIN Exp) \ Specials :
          \A n \in NameTokens : Exp[a] \o Exp[b] \o Exp[c] # Exp[n]
ASSUME \A a \in (DOMAIN Exp) \ (Specials \cup NameTokens) : \A n \in NameTokens : Exp[a] # Exp[n]
\* (iv) only digit tokens contain ASCII digits, and they contain nothing else
ASSUME \A t \in DOMAIN Exp : IF t \in DigitTokens
                             THEN \A i \in 1..Len(Exp[t]) : Exp[t][i] \in 48..57
                             ELSE \A i \in 1..Len(Exp[t]) : Exp[t][i] \notin 48..57
\* the BOM is exactly EF BB BF and the partial BOM is a strict prefix of it
ASSUME Exp["BOM"] = Exp["EFBB"] \o <<191>>
\* no token starts with the last byte of the BOM, so a partial BOM never completes across tokens
ASSUME \A t \in DOMAIN Exp : Exp[t][1] # 191
\* fillers contain only the byte 97, which is none of the above
ASSUME \A f \in DOMAIN Fill : Fill[f] > 0

TableExport == [exp |-> Exp, fill |-> Fill]
=============================================================================
