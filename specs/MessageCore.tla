---------------------------- MODULE MessageCore ----------------------------
(***************************************************************************)
(* message.go / message_fields.go: the Message builder, its encoder        *)
(* (WriteTo as a sequence of Write calls), its decoder (UnmarshalText),    *)
(* the validated field values (EventID / EventType through every           *)
(* construction route) and Clone with a model of Go slice aliasing.        *)
(*                                                                         *)
(* A family of messages is built by the public API's operations; for every *)
(* reachable family TLC checks, with StreamCore as the spec-conforming     *)
(* parser, that the concatenated wire forms decode to exactly one event    *)
(* per message that has data (no injection, C02), that a set ID / type is  *)
(* always a single line (C14), that decoding the encoding gives the        *)
(* message back (C15) and that clones are independent (C19).  Every        *)
(* reachable family is exported with these expectations for replay on the  *)
(* real Message (direction A); what the real encoder wrote comes back for  *)
(* validation by MessageTrace.tla (direction B).                           *)
(*                                                                         *)
(* Properties served: C02 C14 C15 C19.                                     *)
(***************************************************************************)
EXTENDS StreamCore

-----------------------------------------------------------------------------
(* strings and lines                                                       *)

\* pieces of s between line breaks (CR, LF, CRLF), as appendText / NextChunk compute them
RECURSIVE Lines(_)
Lines(s) ==
    IF s = <<>> THEN <<>>
    ELSE LET n == FirstNL(s) IN
         IF n = 0 THEN <<s>>
         ELSE LET skip == IF s[n] = "CR" /\ n < Len(s) /\ s[n + 1] = "LF" THEN n + 1 ELSE n
              IN <<SubSeq(s, 1, n - 1)>> \o Lines(Drop(s, skip))

SingleLine(s) == FirstNL(s) = 0

Unset == [set |-> FALSE, v |-> <<>>]
Val(s) == [set |-> TRUE, v |-> s]

\* the value a construction route produces (and whether it reports an error / panics)
\*   "header": the Last-Event-Id request header as read by Upgrade (an empty header is "no ID", without error)
FieldFrom(route, s, old) ==
    IF route = "header" /\ s = <<>> THEN [f |-> Unset, err |-> FALSE, panic |-> FALSE]
    ELSE IF SingleLine(s) THEN [f |-> Val(s), err |-> FALSE, panic |-> FALSE]
    ELSE IF route = "must" THEN [f |-> old, err |-> FALSE, panic |-> TRUE]
    ELSE [f |-> Unset, err |-> route # "header", panic |-> FALSE]      \* Upgrade has no way to report it

-----------------------------------------------------------------------------
(* encoding                                                                *)

RetryDigits(c) ==
    CASE c = "ms1"   -> <<"d1">>
      [] c = "ms999" -> <<"d9", "d9", "d9">>
      [] c = "s1"    -> <<"d1", "d0", "d0", "d0">>
      [] c = "max"   -> <<"d9", "d2", "d2", "d3", "d3", "d7", "d2", "d0", "d3", "d6", "d8", "d5", "d4">>
      [] OTHER       -> <<>>          \* "neg", "zero", "subms": nothing is written

WireField(name, v) == <<name, "COLON", "SP">> \o v \o <<"LF">>
WireChunk(c) == (IF c.cm THEN <<"COLON", "SP">> ELSE <<"data", "COLON", "SP">>) \o c.c \o <<"LF">>
RECURSIVE WireChunks(_)
WireChunks(cs) == IF cs = <<>> THEN <<>> ELSE WireChunk(Head(cs)) \o WireChunks(Tail(cs))

WireBody(m) ==
    (IF m.id.set THEN WireField("id", m.id.v) ELSE <<>>)
    \o (IF m.type.set THEN WireField("event", m.type.v) ELSE <<>>)
    \o (IF RetryDigits(m.retry) # <<>> THEN WireField("retry", RetryDigits(m.retry)) ELSE <<>>)
    \o WireChunks(m.val)
\* exactly one terminating blank line iff something was written
Wire(m) == IF WireBody(m) = <<>> THEN <<>> ELSE WireBody(m) \o <<"LF">>

RECURSIVE WireAll(_)
WireAll(ms) == IF ms = <<>> THEN <<>> ELSE Wire(Head(ms)) \o WireAll(Tail(ms))

-----------------------------------------------------------------------------
(* what a decoder must see                                                 *)

DataLines(m) == SelectSeq(m.val, LAMBDA c : ~c.cm)
RECURSIVE JoinLF(_)
JoinLF(cs) == IF cs = <<>> THEN <<>> ELSE
              IF Len(cs) = 1 THEN cs[1].c ELSE cs[1].c \o <<"LF">> \o JoinLF(Tail(cs))

\* one event per message that has data (standard) / that has data, a type or a NUL-free ID (go-sse);
\* the ID is sticky across messages and an ID with a NUL is ignored by the decoder
RECURSIVE ExpectedFrom(_, _, _)
ExpectedFrom(ms, last, mode) ==
    IF ms = <<>> THEN <<>>
    ELSE LET m == Head(ms)
             idOK == m.id.set /\ ~HasNUL(m.id.v)
             last1 == IF idOK THEN m.id.v ELSE last
             dl == DataLines(m)
             fires == IF mode = "whatwg" THEN dl # <<>> ELSE (dl # <<>> \/ m.type.set \/ idOK)
             e == [id |-> last1, type |-> IF m.type.set THEN m.type.v ELSE <<>>, hasData |-> dl # <<>>, data |-> JoinLF(dl)]
         IN (IF fires THEN <<e>> ELSE <<>>) \o ExpectedFrom(Tail(ms), last1, mode)
Expected(ms, mode) == ExpectedFrom(ms, <<>>, mode)

-----------------------------------------------------------------------------
(* decoding: Message.UnmarshalText (FieldParser with comments kept, first   *)
(* event only)                                                             *)

EmptyMsg == [id |-> Unset, type |-> Unset, retryDigits |-> <<>>, val |-> <<>>]

RECURSIVE UnmarshalFrom(_, _)
UnmarshalFrom(rest, acc) ==
    IF rest = <<>> THEN [ok |-> TRUE, m |-> acc, why |-> ""]
    ELSE LET n == FirstNL(rest) IN
         IF n = 0 THEN [ok |-> FALSE, m |-> EmptyMsg, why |-> "eof"]
         ELSE LET line == SubSeq(rest, 1, n - 1)
                  skip == IF rest[n] = "CR" /\ n < Len(rest) /\ rest[n + 1] = "LF" THEN n + 1 ELSE n
                  more == Drop(rest, skip)
                  c    == FirstColon(line)
                  name == IF c = 0 THEN line ELSE SubSeq(line, 1, c - 1)
                  val  == IF c = 0 THEN <<>> ELSE TrimSP(Drop(line, c))
              IN IF line = <<>> THEN [ok |-> TRUE, m |-> acc, why |-> ""]          \* event end
                 ELSE IF name = <<"data">> THEN UnmarshalFrom(more, [acc EXCEPT !.val = Append(acc.val, [c |-> val, cm |-> FALSE])])
                 ELSE IF name = <<>> /\ c = 1 THEN UnmarshalFrom(more, [acc EXCEPT !.val = Append(acc.val, [c |-> val, cm |-> TRUE])])
                 ELSE IF name = <<"event">> THEN UnmarshalFrom(more, [acc EXCEPT !.type = Val(val)])
                 ELSE IF name = <<"id">> THEN
                      IF HasNUL(val) THEN UnmarshalFrom(more, acc) ELSE UnmarshalFrom(more, [acc EXCEPT !.id = Val(val)])
                 ELSE IF name = <<"retry">> THEN
                      IF AllDigits(val) THEN UnmarshalFrom(more, [acc EXCEPT !.retryDigits = val])
                      ELSE [ok |-> FALSE, m |-> EmptyMsg, why |-> "retry"]
                 ELSE UnmarshalFrom(more, acc)

Unmarshal(w) ==
    LET w1 == IF w # <<>> /\ w[1] = "BOM" THEN Drop(w, 1) ELSE w
        r  == UnmarshalFrom(w1, EmptyMsg)
    IN IF r.ok /\ r.m.val = <<>> /\ ~r.m.type.set /\ ~r.m.id.set /\ r.m.retryDigits = <<>>
       THEN [ok |-> FALSE, m |-> EmptyMsg, why |-> "empty"] ELSE r

\* decoding the encoding gives the message back (IDs without NUL; retry to the millisecond)
RoundTripOK(m) ==
    LET r == Unmarshal(Wire(m)) IN
    IF Wire(m) = <<>> THEN ~r.ok
    ELSE IF m.id.set /\ HasNUL(m.id.v) THEN TRUE      \* out of the property's scope
    ELSE /\ r.ok /\ r.m.val = m.val /\ r.m.type = m.type
         /\ r.m.id = (IF m.id.set /\ HasNUL(m.id.v) THEN Unset ELSE m.id)
         /\ r.m.retryDigits = RetryDigits(m.retry)

=============================================================================
