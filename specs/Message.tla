------------------------------ MODULE Message ------------------------------
(***************************************************************************)
(* The family of messages built through the public API (state machine over *)
(* MessageCore.tla's operators), with the Go slice model for Clone.        *)
(* Properties served: C02 C14 C15 C19.                                     *)
(***************************************************************************)
EXTENDS MessageCore

CONSTANTS
    DataStrs,     \* strings AppendData may get (token sequences)
    CommentStrs,  \* strings AppendComment may get
    IdStrs,       \* strings given to ID constructors
    TypeStrs,     \* strings given to type constructors
    Routes,       \* construction routes used for IDs and types:
                  \*   "new" NewID/NewType  "must" ID()/Type() (panics)  "text" UnmarshalText
                  \*   "json" UnmarshalJSON of the JSON string  "scan_s" Scan(string)  "scan_b" Scan([]byte)
                  \*   "header" the Last-Event-Id header through Upgrade (IDs only)
    TextStrs,     \* wire texts given to Message.UnmarshalText (creates a member of the family)
    RetryClasses, \* subset of {"neg", "zero", "subms", "ms1", "ms999", "s1", "max"}
    MaxMsgs,      \* size of the family
    MaxOps,       \* operations per message
    MaxAppends,   \* AppendData / AppendComment calls per message
    AnyTarget,    \* TRUE: operations may target any member (clone families, C19); FALSE: only the newest
    AutoData,     \* TRUE: AppendData gets a string determined by (member, how many appends it had) - distinct per
                  \*   member so that an aliasing write shows, two lines on a member's second append, a comment on its third; FALSE: DataStrs
    FieldOnce,    \* TRUE: at most one ID assignment and one type assignment per message
    ViewHist,     \* TRUE: every operation sequence is explored (C14: every route x input); FALSE: one per family value
    CapClone      \* TRUE: Clone limits the capacity of the chunk slice (as the code does); FALSE: sensitivity variant

-----------------------------------------------------------------------------
(* the family of messages and the Go slice model                           *)

VARIABLES
    msgs,     \* sequence of messages [id, type, retry, val, arr, len, cap]
              \*   val: the chunks by value semantics; (arr, len, cap): the chunk slice as Go sees it
    arrays,   \* backing arrays: sequence of sequences of chunks (index = array id)
    nops,     \* operations applied per message
    napp,     \* appends applied per message
    hist      \* operations so far
vars == <<msgs, arrays, nops, napp, hist>>

NoChunk == [c |-> <<"?">>, cm |-> FALSE]
NewMessage == [id |-> Unset, type |-> Unset, retry |-> "zero", val |-> <<>>, arr |-> 0, len |-> 0, cap |-> 0]

Init == msgs = <<>> /\ arrays = <<>> /\ nops = <<>> /\ napp = <<>> /\ hist = <<>>

Targets == IF msgs = <<>> THEN {} ELSE IF AnyTarget THEN 1..Len(msgs) ELSE {Len(msgs)}
CanOp(i) == i \in Targets /\ nops[i] < MaxOps

\* the chunks a message has as Go sees them
SliceOf(m) == IF m.len = 0 THEN <<>> ELSE SubSeq(arrays[m.arr], 1, m.len)

\* append one chunk the way Go's append does: in place when len < cap, else into a new, larger array
GrowCap(c) == IF c = 0 THEN 1 ELSE c * 2
AppendOne(m, as, ch) ==
    IF m.len < m.cap
    THEN [m |-> [m EXCEPT !.len = m.len + 1, !.val = Append(m.val, ch)],
          as |-> [as EXCEPT ![m.arr] = [as[m.arr] EXCEPT ![m.len + 1] = ch]]]
    ELSE LET nc == GrowCap(m.cap)
             old == IF m.len = 0 THEN <<>> ELSE SubSeq(as[m.arr], 1, m.len)
             na == old \o <<ch>> \o [k \in 1..(nc - m.len - 1) |-> NoChunk]
         IN [m |-> [m EXCEPT !.arr = Len(as) + 1, !.len = m.len + 1, !.cap = nc, !.val = Append(m.val, ch)],
             as |-> Append(as, na)]

RECURSIVE AppendAll(_, _, _, _)
AppendAll(m, as, pieces, cm) ==
    IF pieces = <<>> THEN [m |-> m, as |-> as]
    ELSE LET r == AppendOne(m, as, [c |-> Head(pieces), cm |-> cm]) IN AppendAll(r.m, r.as, Tail(pieces), cm)

RECURSIVE AppendChunks(_, _, _)
AppendChunks(m, as, cs) ==
    IF cs = <<>> THEN [m |-> m, as |-> as]
    ELSE LET r == AppendOne(m, as, Head(cs)) IN AppendChunks(r.m, r.as, Tail(cs))

Rec(op) == hist' = Append(hist, op)
Bump(i) == nops' = [nops EXCEPT ![i] = nops[i] + 1] /\ napp' = napp
BumpApp(i) == nops' = [nops EXCEPT ![i] = nops[i] + 1] /\ napp' = [napp EXCEPT ![i] = napp[i] + 1]

New ==
    /\ Len(msgs) < MaxMsgs
    /\ (AnyTarget => msgs = <<>>)        \* a clone family grows from one root
    /\ msgs' = Append(msgs, NewMessage) /\ nops' = Append(nops, 0) /\ napp' = Append(napp, 0) /\ arrays' = arrays
    /\ Rec([op |-> "new", i |-> Len(msgs) + 1, s |-> <<>>, route |-> "", j |-> 0, err |-> FALSE, panic |-> FALSE])

\* Message.UnmarshalText on an arbitrary wire text: the first event's fields, or an error
FromText(s) ==
    /\ Len(msgs) < MaxMsgs /\ ~AnyTarget
    /\ LET r == Unmarshal(s)
           m == [NewMessage EXCEPT !.id = r.m.id, !.type = r.m.type, !.retry = IF r.m.retryDigits = <<>> THEN "zero" ELSE "ms1"]
           a == AppendChunks(m, arrays, r.m.val)
       IN /\ msgs' = Append(msgs, a.m) /\ arrays' = a.as
          /\ Rec([op |-> "fromtext", i |-> Len(msgs) + 1, s |-> s, route |-> "", j |-> 0, err |-> ~r.ok, panic |-> FALSE])
    /\ nops' = Append(nops, 0) /\ napp' = Append(napp, 0)

\* Message.UnmarshalText on an existing member: its fields are overwritten, nobody else's
Refill(i, s) ==
    /\ AnyTarget /\ CanOp(i)
    /\ LET r == Unmarshal(s)
           m == [NewMessage EXCEPT !.id = r.m.id, !.type = r.m.type, !.retry = IF r.m.retryDigits = <<>> THEN "zero" ELSE "ms1"]
           a == AppendChunks(m, arrays, r.m.val)       \* value semantics: fresh storage
       IN /\ msgs' = [msgs EXCEPT ![i] = a.m] /\ arrays' = a.as
          /\ Rec([op |-> "refill", i |-> i, s |-> s, route |-> "", j |-> 0, err |-> ~r.ok, panic |-> FALSE])
    /\ Bump(i)

AppendText(i, s, cm) ==
    /\ CanOp(i) /\ napp[i] < MaxAppends
    /\ LET r == AppendAll(msgs[i], arrays, Lines(s), cm) IN
       /\ msgs' = [msgs EXCEPT ![i] = r.m] /\ arrays' = r.as
    /\ BumpApp(i)
    /\ Rec([op |-> IF cm THEN "comment" ELSE "data", i |-> i, s |-> s, route |-> "", j |-> 0, err |-> FALSE, panic |-> FALSE])

Assigned(i, what) == \E k \in 1..Len(hist) : hist[k].op = what /\ hist[k].i = i

SetID(i, route, s) ==
    /\ CanOp(i) /\ (FieldOnce => ~Assigned(i, "id"))
    /\ msgs' = [msgs EXCEPT ![i].id = FieldFrom(route, s, msgs[i].id).f] /\ arrays' = arrays
    /\ Bump(i) /\ Rec([op |-> "id", i |-> i, s |-> s, route |-> route, j |-> 0,
                        err |-> FieldFrom(route, s, msgs[i].id).err, panic |-> FieldFrom(route, s, msgs[i].id).panic])
SetType(i, route, s) ==
    /\ CanOp(i) /\ (FieldOnce => ~Assigned(i, "type"))
    /\ msgs' = [msgs EXCEPT ![i].type = FieldFrom(route, s, msgs[i].type).f] /\ arrays' = arrays
    /\ Bump(i) /\ Rec([op |-> "type", i |-> i, s |-> s, route |-> route, j |-> 0,
                        err |-> FieldFrom(route, s, msgs[i].type).err, panic |-> FieldFrom(route, s, msgs[i].type).panic])
SetRetry(i, c) ==
    /\ CanOp(i)
    /\ msgs' = [msgs EXCEPT ![i].retry = c] /\ arrays' = arrays
    /\ Bump(i) /\ Rec([op |-> "retry", i |-> i, s |-> <<>>, route |-> c, j |-> 0, err |-> FALSE, panic |-> FALSE])

\* Clone: same fields, the chunk slice shared up to len; the code also limits the capacity
Clone(j) ==
    /\ Len(msgs) < MaxMsgs /\ j \in 1..Len(msgs)
    /\ msgs' = Append(msgs, [msgs[j] EXCEPT !.cap = IF CapClone THEN msgs[j].len ELSE msgs[j].cap])
    /\ nops' = Append(nops, 0) /\ napp' = Append(napp, 0) /\ arrays' = arrays
    /\ Rec([op |-> "clone", i |-> Len(msgs) + 1, s |-> <<>>, route |-> "", j |-> j, err |-> FALSE, panic |-> FALSE])

AutoStr(i) == LET t == <<"x", "y", "d1", "d2", "d3">>[i] IN
              IF napp[i] = 1 THEN <<t, "LF", t, t>> ELSE <<t>>

Next ==
    \/ New
    \/ \E s \in TextStrs : FromText(s)
    \/ \E i \in Targets :
          \/ (IF AutoData THEN AppendText(i, AutoStr(i), napp[i] = 2) ELSE \E s \in DataStrs : AppendText(i, s, FALSE))
          \/ \E s \in CommentStrs : AppendText(i, s, TRUE)
          \/ \E r \in Routes : (\E s \in IdStrs : SetID(i, r, s)) \/ (r # "header" /\ \E s \in TypeStrs : SetType(i, r, s))
          \/ \E c \in RetryClasses : SetRetry(i, c)
          \/ \E s \in TextStrs : Refill(i, s)
    \/ \E j \in 1..Len(msgs) : Clone(j)

Spec == Init /\ [][Next]_vars

\* the history is an observation: a family reached by two operation orders is explored once
View == <<msgs, arrays, nops, napp, IF ViewHist THEN hist ELSE <<>>>>

-----------------------------------------------------------------------------
(* Invariants                                                              *)

Family == [i \in 1..Len(msgs) |-> msgs[i]]

\* C02: no injection — the standard decoder and go-sse's see exactly one event per message with data
NoInjection ==
    /\ Interpret(WireAll(msgs), "clean", "whatwg", <<>>).out = Expected(msgs, "whatwg")
    /\ Interpret(WireAll(msgs), "clean", "read", <<>>).out = Expected(msgs, "read")
    /\ Interpret(WireAll(msgs), "clean", "read", <<>>).status = "eof"
\* every chunk is one line, so no appended string can end the event early or start another field
ChunksSingleLine == \A i \in 1..Len(msgs) : \A k \in 1..Len(msgs[i].val) : SingleLine(msgs[i].val[k].c)
\* C14: a set ID / type never contains CR or LF
FieldsSingleLine == \A i \in 1..Len(msgs) : (msgs[i].id.set => SingleLine(msgs[i].id.v)) /\ (msgs[i].type.set => SingleLine(msgs[i].type.v))
\* C15: decoding the encoding gives the message back
RoundTrip == \A i \in 1..Len(msgs) : RoundTripOK(msgs[i])
\* C19: what Go sees in every member's chunk slice is what value semantics says (fails without the capacity cap)
NoAliasing == \A i \in 1..Len(msgs) : SliceOf(msgs[i]) = msgs[i].val

-----------------------------------------------------------------------------
ExportMsg(m) == [id |-> m.id, type |-> m.type, retry |-> m.retry, chunks |-> m.val, wire |-> Wire(m),
                 unmarshal |-> Unmarshal(Wire(m))]
ExportRec == [ops |-> hist,
              msgs |-> [i \in 1..Len(msgs) |-> ExportMsg(msgs[i])],
              whatwg |-> Expected(msgs, "whatwg"),
              read |-> Expected(msgs, "read")]
Export == hist # <<>> => PrintT(ToJson(ExportRec))
=============================================================================
