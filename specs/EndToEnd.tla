------------------------------ MODULE EndToEnd ------------------------------
(***************************************************************************)
(* Publisher, Server (Joe + replayer + Session) and Client composed over   *)
(* connections that can be cut.  The parts appear with their *reference*   *)
(* behaviour, each justified by a refinement checked elsewhere:            *)
(*   Joe + replayer  = replay of everything after the presented ID and     *)
(*                     registration for live events in one atomic step     *)
(*                     (Joe.tla: Resume, Replay.tla: ReplayOK, window      *)
(*                     large enough);                                      *)
(*   Session         = whole message encodings, in order, after a header   *)
(*                     flush (Session.tla);                                *)
(*   Client          = StreamCore in "conn" mode: an event is dispatched   *)
(*                     when complete, a partial one is discarded on a read *)
(*                     error and Last-Event-ID is the last *dispatched* ID *)
(*                     (Client.tla: HeaderRule).                           *)
(* A connection carries a sequence of whole events; Cut closes it abruptly *)
(* (the client gets some prefix of what was written, then a read error) or *)
(* by the handler ending at a message boundary (everything written arrives,*)
(* then a clean EOF).                                                      *)
(*                                                                         *)
(* Properties served: C05.                                                 *)
(***************************************************************************)
EXTENDS Integers, Sequences, FiniteSets, TLC

CONSTANTS MaxPub,     \* events published
          MaxConns,   \* connections the client may open
          MaxCuts,    \* cuts the environment may make
          MisalignedEOF \* sensitivity variant: a handler end may fall inside an event (must break NoGapNoDup)

VARIABLES published,  \* number of events published so far (event k has ID k)
          conn,       \* "closed" | "open"
          first,      \* the first event the server will send on this connection
          wire,       \* events written on the open connection (sequence of IDs); 0 marks a truncated event
          taken,      \* how many of them the client has processed
          lastID,     \* client: ID of the last dispatched event (0: none yet)
          recv,       \* client: IDs dispatched to callbacks
          nconn, ncuts
vars == <<published, conn, first, wire, taken, lastID, recv, nconn, ncuts>>

Init == published = 0 /\ conn = "closed" /\ first = 0 /\ wire = <<>> /\ taken = 0 /\ lastID = 0 /\ recv = <<>> /\ nconn = 0 /\ ncuts = 0

Publish ==
    /\ published < MaxPub
    /\ published' = published + 1
    /\ UNCHANGED <<conn, first, wire, taken, lastID, recv, nconn, ncuts>>

\* (re)connect: the request carries the last dispatched ID; the server replays what follows it and goes live -
\* without an ID it goes live only
Connect ==
    /\ conn = "closed" /\ nconn < MaxConns
    /\ conn' = "open" /\ nconn' = nconn + 1
    /\ first' = IF lastID = 0 THEN published + 1 ELSE lastID + 1
    /\ wire' = <<>> /\ taken' = 0
    /\ UNCHANGED <<published, lastID, recv, ncuts>>

\* the server writes the next whole event (replayed or live: the order is the publish order)
ServerSend ==
    /\ conn = "open"
    /\ first + Len(wire) <= published
    /\ wire' = Append(wire, first + Len(wire))
    /\ UNCHANGED <<published, conn, first, taken, lastID, recv, nconn, ncuts>>

\* the client parses the next complete event and dispatches it
ClientReceive ==
    /\ conn = "open" /\ taken < Len(wire) /\ wire[taken + 1] # 0
    /\ taken' = taken + 1
    /\ recv' = Append(recv, wire[taken + 1]) /\ lastID' = wire[taken + 1]
    /\ UNCHANGED <<published, conn, first, wire, nconn, ncuts>>

\* abrupt cut: the client gets any prefix of what was written (whole events of it are dispatched), then a
\* read error; a partially received event is discarded
CutAbrupt(m) ==
    /\ conn = "open" /\ ncuts < MaxCuts /\ m \in taken..Len(wire)
    /\ LET got == SubSeq(wire, taken + 1, m) IN
       /\ recv' = recv \o got
       /\ lastID' = IF got = <<>> THEN lastID ELSE got[Len(got)]
    /\ conn' = "closed" /\ ncuts' = ncuts + 1 /\ wire' = <<>> /\ taken' = 0
    /\ UNCHANGED <<published, first, nconn>>

\* the handler ends: everything written arrives, then a clean EOF.  Messages are written whole, so the
\* stream ends at a message boundary (in the sensitivity variant it may end inside an event, which the
\* client's clean-EOF flush would dispatch truncated: modelled as a wrong event 0)
CutHandlerEnd ==
    /\ conn = "open" /\ ncuts < MaxCuts
    /\ LET got == SubSeq(wire, taken + 1, Len(wire))
           bad == IF MisalignedEOF /\ first + Len(wire) <= published THEN <<0>> ELSE <<>>
       IN /\ recv' = recv \o got \o bad
          /\ lastID' = IF got = <<>> THEN lastID ELSE got[Len(got)]
    /\ conn' = "closed" /\ ncuts' = ncuts + 1 /\ wire' = <<>> /\ taken' = 0
    /\ UNCHANGED <<published, first, nconn>>

Next == Publish \/ Connect \/ ServerSend \/ ClientReceive \/ CutHandlerEnd \/ \E m \in 0..MaxPub : CutAbrupt(m)
Spec == Init /\ [][Next]_vars
FairSpec == Spec /\ WF_vars(Publish) /\ WF_vars(Connect) /\ WF_vars(ServerSend) /\ WF_vars(ClientReceive)

\* C05: from its first event on the client sees exactly the published sequence: no gap, duplicate or reordering
NoGapNoDup == \A i \in 1..(Len(recv) - 1) : recv[i + 1] = recv[i] + 1
OnlyPublished == \A i \in 1..Len(recv) : recv[i] \in 1..published
\* once it has an event and cuts stop (they are bounded), it catches up with everything published
CaughtUp == <>[](nconn = MaxConns \/ ((published = MaxPub /\ recv # <<>>) => recv[Len(recv)] = MaxPub))
=============================================================================
