----------------------------- MODULE StreamCore -----------------------------
(***************************************************************************)
(* The WHATWG event-stream parsing / interpretation algorithm over token   *)
(* strings (Bytes.tla), in three modes:                                    *)
(*   "whatwg"  the standard unadapted (dispatch only with data; a pending  *)
(*             event is discarded at the end of the stream)                *)
(*   "read"    go-sse's sse.Read: dispatch when any of data/event/id was   *)
(*             seen; Type stays empty; a pending event whose last line was *)
(*             terminated is dispatched at a clean end of stream, an       *)
(*             unterminated last line discards it (unexpected_eof)         *)
(*   "conn"    a Connection: as "read", and retry also makes an event      *)
(*                                                                         *)
(* The interpretation is a deterministic step function on a record         *)
(* (StripBOM, Line, End); the state machine below applies it one step at a *)
(* time (Stream.tla, model checking), Run applies it to completion (export  *)
(* and use by Client.tla, Message.tla, EndToEnd.tla).  It is independent of how bytes arrive by    *)
(* construction, which is what makes it the oracle for the code's handling *)
(* of read boundaries.                                                     *)
(*                                                                         *)
(* Properties served: C01 C11 C02 C10 C12 C05 (as the reference parser).   *)
(***************************************************************************)
EXTENDS Bytes, Json

IsNL(t) == t \in {"LF", "CR"}

\* index of the first token satisfying P, or 0
FirstNL(s)    == IF \E i \in 1..Len(s) : IsNL(s[i])
                 THEN CHOOSE i \in 1..Len(s) : IsNL(s[i]) /\ \A j \in 1..(i - 1) : ~IsNL(s[j]) ELSE 0
FirstColon(s) == IF \E i \in 1..Len(s) : s[i] = "COLON"
                 THEN CHOOSE i \in 1..Len(s) : s[i] = "COLON" /\ \A j \in 1..(i - 1) : s[j] # "COLON" ELSE 0

Drop(s, n) == SubSeq(s, n + 1, Len(s))
TrimSP(s)  == IF s # <<>> /\ s[1] = "SP" THEN Drop(s, 1) ELSE s
HasNUL(s)  == \E i \in 1..Len(s) : s[i] = "NUL"
AllDigits(s) == s # <<>> /\ \A i \in 1..Len(s) : s[i] \in DigitTokens

InitSt(input, lastId0) ==
    [rest |-> input, started |-> FALSE, data |-> <<>>, hasData |-> FALSE, type |-> <<>>, lastId |-> lastId0,
     dirty |-> FALSE, out |-> <<>>, status |-> "running", lastTerm |-> TRUE, retries |-> <<>>, nblank |-> 0]

\* hasData is a ghost (not observable through go-sse's Event): whether the event had a data field
Event(st) == [id |-> st.lastId, type |-> st.type, hasData |-> st.hasData,
              data |-> IF st.data = <<>> THEN <<>> ELSE SubSeq(st.data, 1, Len(st.data) - 1)]

ShouldDispatch(st, mode) == IF mode = "whatwg" THEN st.hasData ELSE st.dirty

\* the BOM is removed only as the very first token of the stream
StripBOM(st) ==
    [st EXCEPT !.started = TRUE,
               !.rest = IF st.rest # <<>> /\ st.rest[1] = "BOM" THEN Drop(st.rest, 1) ELSE st.rest]

\* one line: blank -> dispatch; field; comment; unknown; an unterminated tail only records that fact
Line(st, mode) ==
    LET n == FirstNL(st.rest) IN
    IF n = 0 THEN [st EXCEPT !.rest = <<>>, !.lastTerm = FALSE]
    ELSE
      LET line == SubSeq(st.rest, 1, n - 1)
          skip == IF st.rest[n] = "CR" /\ n < Len(st.rest) /\ st.rest[n + 1] = "LF" THEN n + 1 ELSE n
          c    == FirstColon(line)
          name == IF c = 0 THEN line ELSE SubSeq(line, 1, c - 1)
          val  == IF c = 0 THEN <<>> ELSE TrimSP(Drop(line, c))
          s1   == [st EXCEPT !.rest = Drop(st.rest, skip), !.lastTerm = TRUE]
      IN IF line = <<>> THEN
            [s1 EXCEPT !.out = IF ShouldDispatch(st, mode) THEN Append(st.out, Event(st)) ELSE st.out,
                       !.data = <<>>, !.hasData = FALSE, !.type = <<>>, !.dirty = FALSE, !.nblank = st.nblank + 1]
         ELSE IF name = <<"data">> THEN
            [s1 EXCEPT !.data = st.data \o val \o <<"LF">>, !.hasData = TRUE, !.dirty = TRUE]
         ELSE IF name = <<"event">> THEN
            [s1 EXCEPT !.type = val, !.dirty = TRUE]
         ELSE IF name = <<"id">> THEN
            IF HasNUL(val) THEN s1 ELSE [s1 EXCEPT !.lastId = val, !.dirty = TRUE]
         ELSE IF name = <<"retry">> THEN
            IF AllDigits(val) /\ mode # "read"
            THEN [s1 EXCEPT !.retries = Append(st.retries, val), !.dirty = (st.dirty \/ mode = "conn")]
            ELSE s1
         ELSE s1        \* comment (empty name) or unknown / look-alike name

\* end of input: clean (EOF), or a read error / cancellation
End(st, endKind, mode) ==
    IF endKind = "clean" THEN
        IF mode = "whatwg" THEN [st EXCEPT !.status = "eof"]
        ELSE IF st.lastTerm
             THEN [st EXCEPT !.out = IF st.dirty THEN Append(st.out, Event(st)) ELSE st.out, !.status = "eof"]
             ELSE [st EXCEPT !.status = "unexpected_eof"]
    ELSE [st EXCEPT !.status = IF endKind = "cancel" THEN "cancelled" ELSE "read_error"]

Step(st, endKind, mode) ==
    IF ~st.started THEN StripBOM(st)
    ELSE IF st.rest = <<>> THEN End(st, endKind, mode)
    ELSE Line(st, mode)

RECURSIVE Run(_, _, _)
Run(st, endKind, mode) == IF st.status # "running" THEN st ELSE Run(Step(st, endKind, mode), endKind, mode)

Interpret(input, endKind, mode, lastId0) == Run(InitSt(input, lastId0), endKind, mode)

\* the observable result of an interpretation
Result(st) == [out |-> st.out, status |-> st.status, retries |-> st.retries, lastId |-> st.lastId]

=============================================================================
