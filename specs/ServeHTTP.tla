------------------------------ MODULE ServeHTTP ------------------------------
(***************************************************************************)
(* server.go: Server.ServeHTTP as a function of what it meets - whether    *)
(* the ResponseWriter can flush (Upgrade), the Last-Event-Id header, what  *)
(* OnSession answers and what the provider's Subscribe returns - to what   *)
(* it must do: the subscription handed to the provider and what the server *)
(* itself writes.  Properties served: C16 (second sentence).               *)
(***************************************************************************)
EXTENDS Integers, Sequences, FiniteSets, TLC, Json

Flushable == BOOLEAN
LastIDs   == {"absent", "empty", "ok", "multiline"}
OnSession == {"unset", "reject", "accept-no-topics", "accept-empty-topics", "accept-topics"}   \* no topics: nil; empty: a non-nil empty list
Provider  == {"nil", "err"}

Cases == [flushable : Flushable, lid : LastIDs, onsession : OnSession, provider : Provider]

Expected(c) ==
    IF ~c.flushable THEN
        [subscribed |-> FALSE, status |-> 500, wrote |-> "unsupported", lidset |-> FALSE, topics |-> "none"]
    ELSE IF c.onsession = "reject" THEN
        [subscribed |-> FALSE, status |-> 200, wrote |-> "nothing", lidset |-> FALSE, topics |-> "none"]
    ELSE
        [subscribed |-> TRUE,
         lidset |-> c.lid = "ok",                                            \* unset when absent, empty or invalid
         topics |-> IF c.onsession = "accept-topics" THEN "given" ELSE "default",
         status |-> IF c.provider = "err" THEN 500 ELSE 200,                  \* refused before anything was sent
         wrote |-> IF c.provider = "err" THEN "error" ELSE "nothing"]

VARIABLE done
Init == done = FALSE
Next == ~done /\ done' = TRUE
Spec == Init /\ [][Next]_done

\* the server writes of its own accord only to report a failure
WritesOnlyOnFailure == \A c \in Cases : Expected(c).wrote # "nothing" <=> Expected(c).status = 500
RejectedIsSilent == \A c \in Cases : (c.flushable /\ c.onsession = "reject") => ~Expected(c).subscribed /\ Expected(c).wrote = "nothing"

Export == done => PrintT(ToJson([cases |-> {[c |-> c, e |-> Expected(c)] : c \in Cases}]))
=============================================================================
