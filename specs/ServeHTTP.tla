------------------------------ MODULE ServeHTTP ------------------------------
(***************************************************************************)
(* server.go: Server.ServeHTTP as a function of what it meets - whether    *)
(* the ResponseWriter can flush (Upgrade), the Last-Event-Id header, what  *)
(* OnSession answers and what the provider's Subscribe returns - to what   *)
(* it must do: the subscription handed to the provider and what the server *)
(* itself writes; and Server.Publish's choice of topics.                   *)
(*                                                                         *)
(* The state machine is a process serving a sequence of operations         *)
(* (requests and publishes, on any Server values): what each operation     *)
(* must do is a function of that operation alone - nothing a request       *)
(* leaves behind (in the Server, or in package-level state such as the     *)
(* shared default-topic slice) may change what a later one sees.  TLC      *)
(* exports every sequence of MaxOps operations with the expectation of     *)
(* each; `vdriver serve` runs them in one process.                         *)
(* Properties served: C16 (second sentence).                               *)
(***************************************************************************)
EXTENDS Integers, Sequences, FiniteSets, TLC, Json

CONSTANT MaxOps

Flushable == BOOLEAN
LastIDs   == {"absent", "empty", "ok", "multiline"}
\* no topics: nil; empty: a non-nil empty list; one / two topics; a named topic together with DefaultTopic (the empty string is a
\* topic like any other once OnSession has chosen it)
OnSession == {"unset", "reject", "accept-no-topics", "accept-empty-topics", "accept-one-topic", "accept-topics", "accept-named-and-default"}
Provider  == {"nil", "err", "errcanceled"}   \* errcanceled: the provider refuses with an error that wraps context.Canceled (its own
                                             \* backend gave up) while the request is alive: a refusal like any other

Cases == [flushable : Flushable, lid : LastIDs, onsession : OnSession, provider : Provider]

Expected(c) ==
    IF ~c.flushable THEN
        [subscribed |-> FALSE, status |-> 500, wrote |-> "unsupported", lidset |-> FALSE, topics |-> "none"]
    ELSE IF c.onsession = "reject" THEN
        [subscribed |-> FALSE, status |-> 200, wrote |-> "nothing", lidset |-> FALSE, topics |-> "none"]
    ELSE
        [subscribed |-> TRUE,
         lidset |-> c.lid = "ok",                                            \* unset when absent, empty or invalid
         topics |-> CASE c.onsession = "accept-topics" -> "given2"
                      [] c.onsession = "accept-one-topic" -> "given1"
                      [] c.onsession = "accept-named-and-default" -> "named+default"
                      [] OTHER -> "default",
         status |-> IF c.provider # "nil" THEN 500 ELSE 200,                  \* refused before anything was sent
         wrote |-> IF c.provider # "nil" THEN "error" ELSE "nothing"]

\* Server.Publish(msg, topics...): the provider is given the topics, DefaultTopic if none
PubTopics == {"none", "one", "two", "named+default"}
PubExpected(t) == IF t = "none" THEN "default" ELSE IF t = "one" THEN "given1" ELSE IF t = "two" THEN "given2" ELSE "named+default"

Ops == [op : {"request"}, c : Cases, t : {"none"}] \cup [op : {"publish"}, c : {CHOOSE c \in Cases : TRUE}, t : PubTopics]

VARIABLE hist
Init == hist = <<>>
Next == Len(hist) < MaxOps /\ \E o \in Ops : hist' = Append(hist, o)
Spec == Init /\ [][Next]_hist

\* the server writes of its own accord only to report a failure
WritesOnlyOnFailure == \A c \in Cases : Expected(c).wrote # "nothing" <=> Expected(c).status = 500
RejectedIsSilent == \A c \in Cases : (c.flushable /\ c.onsession = "reject") => ~Expected(c).subscribed /\ Expected(c).wrote = "nothing"

\* the expectation of every operation of a sequence: its own, whatever came before (independence)
WithExpectation(o) == IF o.op = "request" THEN [op |-> "request", c |-> o.c, e |-> Expected(o.c), t |-> "", pe |-> ""]
                      ELSE [op |-> "publish", c |-> o.c, e |-> Expected(o.c), t |-> o.t, pe |-> PubExpected(o.t)]
\* sequences whose first operation cannot leave anything behind are covered by their suffix
Interesting == Len(hist) = 1 \/ (hist[1].op = "request" /\ hist[1].c.flushable /\ hist[1].c.provider = "nil" /\ hist[1].c.lid \in {"absent", "ok"})
Export == (hist # <<>> /\ Interesting) => PrintT(ToJson([ops |-> [i \in 1..Len(hist) |-> WithExpectation(hist[i])]]))
=============================================================================
