------------------------------ MODULE Validator ------------------------------
(***************************************************************************)
(* client.go: DefaultValidator, the response check a Client applies when   *)
(* none is configured (WHATWG processing model: status 200 and a           *)
(* Content-Type whose media type is text/event-stream), and NoopValidator. *)
(* A function of the response: exported as a table and compared with the   *)
(* real validators; Client.tla's "reject" outcome is this function         *)
(* returning an error (a permanent failure: no retry).                     *)
(* Beyond the listed properties (C11 treats the validator as given).       *)
(***************************************************************************)
EXTENDS Integers, Sequences, FiniteSets, TLC, Json

Statuses == {200, 201, 204, 301, 404, 500}

\* Content-Type values as [essence, raw]: essence is the media type a MIME parser extracts (lower case, parameters and
\* surrounding blanks dropped; "" when there is none), raw the header text handed to the real validator
CTs == {
  [e |-> "",                  raw |-> "<absent>"],
  [e |-> "",                  raw |-> ""],
  [e |-> "text/event-stream", raw |-> "text/event-stream"],
  [e |-> "text/event-stream", raw |-> "Text/Event-Stream"],
  [e |-> "text/event-stream", raw |-> "text/event-stream; charset=utf-8"],
  [e |-> "text/event-stream", raw |-> "text/event-stream;charset=utf-8"],
  [e |-> "text/event-stream", raw |-> " text/event-stream "],
  [e |-> "text/event-stream", raw |-> "TEXT/EVENT-STREAM ; foo=bar"],
  [e |-> "text/plain",        raw |-> "text/plain"],
  [e |-> "text/plain",        raw |-> "text/plain; note=text/event-stream"],
  [e |-> "application/json",  raw |-> "application/json"],
  [e |-> "text/event-streamx", raw |-> "text/event-streamx"],
  [e |-> "text/event-stream-x", raw |-> "text/event-stream-x; charset=utf-8"],
  [e |-> "xtext/event-stream", raw |-> "xtext/event-stream"],
  [e |-> "text/event",        raw |-> "text/event"],
  [e |-> "text/html",         raw |-> "text/html; charset=utf-8"]
}

DefaultOK(st, ct) == st = 200 /\ ct.e = "text/event-stream"
NoopOK(st, ct) == TRUE

Cases == {[status |-> st, ct |-> ct.raw, default_ok |-> DefaultOK(st, ct), noop_ok |-> NoopOK(st, ct)] : st \in Statuses, ct \in CTs}

VARIABLE done
Init == done = FALSE
Next == ~done /\ done' = TRUE
Spec == Init /\ [][Next]_done

\* the default validator accepts nothing but a 200 event stream; sanity of the table itself
OnlyEventStreams == \A c \in Cases : c.default_ok => c.status = 200
SomeAccepted == \E c \in Cases : c.default_ok
Export == done => PrintT(ToJson([cases |-> Cases]))
=============================================================================
