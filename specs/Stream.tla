------------------------------- MODULE Stream -------------------------------
(***************************************************************************)
(* The event-stream interpretation of StreamCore.tla as a state machine:   *)
(* generation of an input over an alphabet of tokens and line templates,   *)
(* then the interpretation one step at a time (model checking of the       *)
(* invariants on every intermediate state) or its export (direction A).    *)
(* Properties served: C01 (C11, C20 reuse the exports).                    *)
(***************************************************************************)
EXTENDS StreamCore

-----------------------------------------------------------------------------
(* State machine: generation of an input over Alphabet (single tokens) and *)
(* Templates (whole lines), then the interpretation one step at a time.    *)

CONSTANTS Alphabet,    \* tokens appended one at a time
          Templates,   \* token sequences appended as a whole
          MaxLen,      \* bound on the number of generation steps
          MaxBytes,    \* bound on the byte length of the input (keeps events below the scanner's limit: C20's concern)
          Modes,       \* modes the machine is run in (model checking)
          RunMachine   \* TRUE: after generation, interpret step by step (model checking); FALSE: generate only

VARIABLES phase, input, ngen, mode, endKind, st
vars == <<phase, input, ngen, mode, endKind, st>>

Init == /\ phase = "gen" /\ input = <<>> /\ ngen = 0 /\ mode = "read" /\ endKind = "clean"
        /\ st = InitSt(<<>>, <<>>)

GenTok(t) == /\ phase = "gen" /\ ngen < MaxLen /\ SeqLen(input) + TokLen(t) <= MaxBytes
             /\ input' = Append(input, t) /\ ngen' = ngen + 1
             /\ UNCHANGED <<phase, mode, endKind, st>>
GenTpl(tp) == /\ phase = "gen" /\ ngen < MaxLen /\ SeqLen(input) + SeqLen(tp) <= MaxBytes
              /\ input' = input \o tp /\ ngen' = ngen + 1
              /\ UNCHANGED <<phase, mode, endKind, st>>
Close(k, m) == /\ RunMachine /\ phase = "gen"
               /\ phase' = "run" /\ endKind' = k /\ mode' = m /\ st' = InitSt(input, <<>>)
               /\ UNCHANGED <<input, ngen>>
DoStep == /\ phase = "run" /\ st.status = "running"
          /\ st' = Step(st, endKind, mode)
          /\ UNCHANGED <<phase, input, ngen, mode, endKind>>

Next == \/ \E t \in Alphabet : GenTok(t)
        \/ \E tp \in Templates : GenTpl(tp)
        \/ \E k \in {"clean", "error"}, m \in Modes : Close(k, m)
        \/ DoStep
Spec == Init /\ [][Next]_vars

-----------------------------------------------------------------------------
(* Invariants of the interpretation (checked on every state of the machine) *)

IsPrefix(a, b) == Len(a) <= Len(b) /\ SubSeq(b, 1, Len(a)) = a

\* events only ever get appended, and never once the stream has ended
OutGrows == [][phase = "run" /\ phase' = "run" =>
                 /\ IsPrefix(st.out, st'.out)
                 /\ (st.status # "running" => st' = st)]_vars
\* an end by error dispatches nothing: the events are those of the blank lines
NoFlushOnError == (phase = "run" /\ st.status \in {"read_error", "cancelled", "unexpected_eof"}) => Len(st.out) <= st.nblank
\* at most one event per blank line, plus the one flushed at a clean end
EventsBounded == phase = "run" => Len(st.out) <= st.nblank + 1
\* no event carries an ID with a NUL; without any id field the ID stays the initial one
IdRule == phase = "run" => \A i \in 1..Len(st.out) : ~HasNUL(st.out[i].id)
\* adaptation 1 only adds events: the standard's events are exactly go-sse's events that have a data
\* field (compared for an end by error, where adaptation 3's final flush plays no role)
ModesAgree ==
    phase = "gen" =>
      LET w == Interpret(input, "error", "whatwg", <<>>).out
          r == Interpret(input, "error", "read", <<>>).out
          c == Interpret(input, "error", "conn", <<>>).out
          HasD(e) == e.hasData
      IN /\ w = SelectSeq(r, HasD)
         /\ w = SelectSeq(c, HasD)
         /\ Len(r) <= Len(c)
\* adaptation 3: a clean end adds at most the pending event, and only after a terminated last line
CleanEndFlush ==
    phase = "gen" =>
      \A m \in {"read", "conn"} :
        LET e == Interpret(input, "error", m, <<>>)
            k == Interpret(input, "clean", m, <<>>)
        IN /\ IsPrefix(e.out, k.out) /\ Len(k.out) <= Len(e.out) + 1
           /\ (k.status = "unexpected_eof" => k.out = e.out)
           /\ k.status \in {"eof", "unexpected_eof"}

-----------------------------------------------------------------------------
(* Export (direction A): every generated input with the expected result of *)
(* both go-sse entry points for a clean end and for an end by read error.  *)

ExportRec == [ input |-> input,
               clean |-> [read |-> Result(Interpret(input, "clean", "read", <<>>)),
                          conn |-> Result(Interpret(input, "clean", "conn", <<>>))],
               error |-> [read |-> Result(Interpret(input, "error", "read", <<>>)),
                          conn |-> Result(Interpret(input, "error", "conn", <<>>))] ]
Export == phase = "gen" => PrintT(ToJson(ExportRec))

=============================================================================
