------------------------------- MODULE Replay -------------------------------
(***************************************************************************)
(* replay.go: queue[T] at implementation grain (slots, head, tail, count,  *)
(* capacity) as used by FiniteReplayer and ValidReplayer, next to the      *)
(* abstract log of successful puts.  TLC checks that what the ring        *)
(* arithmetic replays is what the abstract log prescribes (C08, C09), that *)
(* no slot outside the live range holds a message (C18) and exports every  *)
(* reachable history with the expected observables for replay against the  *)
(* real replayers (direction A).                                           *)
(*                                                                         *)
(* Properties served: C08 C09 C18 C19(put part) C04/C05 (reference).       *)
(***************************************************************************)
EXTENDS Integers, Sequences, FiniteSets, TLC, Json

CONSTANTS
    Configs,   \* set of configurations [kind, n, auto, ttl, gci, maxputs]; one is chosen initially
               \*   kind: "finite" | "valid";  n: capacity of the FiniteReplayer
               \*   auto: the replayer assigns IDs 0,1,2,...
               \*   ttl, gci: ValidReplayer time-to-live and GCInterval in clock units (gci 0 = off)
               \*   maxputs: bound on successful puts
    MaxNow,    \* bound on the clock
    MaxBad,    \* bound on rejected puts per history
    PutTopics, \* topic sets a valid Put may use
    SubTopics, \* topic sets a Replay may use
    GCIChanges,\* values the owner may assign to GCInterval in mid-history ({}: it stays as configured)
    AsFound    \* TRUE: findIDInQueue as in the pinned tree (defect D3)

HUGE == 1000000   \* stands for 2^64-1 (TLC integers are 32 bit)

None == [k |-> 0, tp |-> {}, exp |-> 0]

VARIABLES
    cfg,      \* the configuration (constant along a behaviour)
    bad,      \* rejected puts so far: <<number of puts before it, clock, why>>
    pq,       \* the ring shape before the last operation, and that operation (see View)
    buf,      \* function 0..cap-1 -> entry (None = zero value)
    cap,      \* len(q.buf)
    head, tail, count,
    nextID,   \* *currentID (automatic IDs)
    now,      \* injected clock
    lastGC,   \* -1 = zero time
    gci,      \* ValidReplayer.GCInterval now: an exported field, the owner may change it between calls (starts as cfg.gci)
    log,      \* abstract: sequence of all successful puts [tp, exp]
    gone,     \* abstract: number of log entries that were evicted / collected
    hist      \* history of operations (generation only)

vars == <<cfg, bad, pq, buf, cap, head, tail, count, nextID, now, lastGC, gci, log, gone, hist>>

Kind == cfg.kind
N    == cfg.n
Auto == cfg.auto
TTL  == cfg.ttl
GCI  == gci

\* The history is an observation, and so are the topics and expiry times of log entries that left the
\* ring (the retained ones are in buf, see RingIsLog): two histories reaching the same replayer state
\* through the same kind of last step are explored once, TLC's breadth-first search keeping a shortest
\* one.  pq (shape before the last operation + the operation) is part of the view so that every
\* distinct *transition* of the ring is exported, not only every distinct state: an implementation slip
\* in one operation (say, a collection whose expired run wraps around the end of the buffer) shows
\* right after that operation, whatever shorter history leads to the same state.
View == <<cfg, bad, pq, buf, cap, head, tail, count, nextID, now, lastGC, gci, Len(log), gone>>
Shape(op) == <<head, tail, count, cap, op>>

Min(a, b) == IF a < b THEN a ELSE b
Max(a, b) == IF a > b THEN a ELSE b

Init ==
    /\ cfg \in Configs /\ bad = <<>> /\ pq = <<0, 0, 0, 0, "init">>
    /\ cap = IF Kind = "finite" THEN N ELSE 0
    /\ buf = [i \in 0..(cap - 1) |-> None]
    /\ head = 0 /\ tail = 0 /\ count = 0
    /\ nextID = 0 /\ now = 0 /\ lastGC = -1 /\ gci = cfg.gci
    /\ log = <<>> /\ gone = 0 /\ hist = <<>>

-----------------------------------------------------------------------------
(* queue[T], as written                                                    *)

\* enqueue(v): returns the new [buf, head, tail, count]
Enqueue(q, v) ==
    LET b1 == [q.buf EXCEPT ![q.tail] = v]
        t1 == q.tail + 1
        ow == t1 > q.head /\ q.count = q.cap
        h1 == IF ow THEN t1 ELSE q.head
        c1 == IF ow THEN q.count ELSE q.count + 1
        wrap == t1 = q.cap
    IN [buf |-> b1, cap |-> q.cap,
        tail |-> IF wrap THEN 0 ELSE t1,
        head |-> IF wrap /\ ow THEN 0 ELSE h1,
        count |-> c1]

\* dequeue()
Dequeue(q) ==
    LET h1 == q.head + 1 IN
    [buf |-> [q.buf EXCEPT ![q.head] = None], cap |-> q.cap, tail |-> q.tail,
     head |-> IF h1 = q.cap THEN 0 ELSE h1, count |-> q.count - 1]

\* the slice copied by resize / iterated by each(startAt): sequence of slot indices
Idx(q, startAt) ==
    IF startAt < q.tail THEN [i \in 1..(q.tail - startAt) |-> startAt + i - 1]
    ELSE [i \in 1..(q.cap - startAt) |-> startAt + i - 1] \o [i \in 1..q.tail |-> i - 1]

\* resize(newSize): copy(buf, q.buf[head:tail]) or the two-part copy; copy truncates at newSize
Resize(q, newSize) ==
    LET src == IF q.head < q.tail THEN [i \in 1..(q.tail - q.head) |-> q.head + i - 1]
               ELSE [i \in 1..(q.cap - q.head) |-> q.head + i - 1] \o [i \in 1..q.tail |-> i - 1]
    IN [buf |-> [i \in 0..(newSize - 1) |-> IF i + 1 <= Len(src) THEN q.buf[src[i + 1]] ELSE None],
        cap |-> newSize, head |-> 0, tail |-> q.count, count |-> q.count]

Q == [buf |-> buf, cap |-> cap, head |-> head, tail |-> tail, count |-> count]

SetQ(q) == /\ buf' = q.buf /\ cap' = q.cap /\ head' = q.head /\ tail' = q.tail /\ count' = q.count

\* doGC(now)
RECURSIVE DropExpired(_, _)
DropExpired(q, t) ==
    IF q.count > 0 /\ ~(q.buf[q.head].exp > t) THEN DropExpired(Dequeue(q), t) ELSE q

DoGC(q, t) ==
    LET q1 == DropExpired(q, t) IN
    IF q1.count <= q1.cap \div 4
    THEN Resize(q1, Max(q1.cap \div 2, 4))
    ELSE q1

-----------------------------------------------------------------------------
(* Presented IDs.  A presented ID is a record:                             *)
(*   [kind |-> "unset"]                                                    *)
(*   [kind |-> "put",  j |-> j]    the ID of the j-th successful put       *)
(*   [kind |-> "next", d |-> d]    automatic: the number nextID + d        *)
(*   [kind |-> "lit",  s |-> s]    a literal that was never issued         *)

Lits == IF Auto THEN {"x7", "-1", "+1", "", "18446744073709551615"} ELSE {"zz", ""}

Presented ==
    {[kind |-> "unset"]} \cup {[kind |-> "put", j |-> j] : j \in 1..Len(log)}
    \cup (IF Auto THEN {[kind |-> "next", d |-> d] : d \in {0, 3}} ELSE {})
    \cup {[kind |-> "lit", s |-> s] : s \in Lits}

\* strconv.ParseUint of a presented ID (automatic IDs): <<ok, value>>
ParseU(p) ==
    CASE p.kind = "unset" -> <<FALSE, 0>>           \* EventID{}.String() = "" does not parse
      [] p.kind = "put"   -> <<TRUE, p.j - 1>>      \* automatic IDs are 0,1,2,... in put order
      [] p.kind = "next"  -> <<TRUE, nextID + p.d>>
      [] p.kind = "lit"   -> IF p.s = "18446744073709551615" THEN <<TRUE, HUGE>> ELSE <<FALSE, 0>>

\* findIDInQueue
Find(q, p) ==
    IF q.count = 0 THEN -1
    ELSE IF Auto THEN
        LET pu == ParseU(p) IN
        IF ~pu[1] THEN -1 ELSE
        LET id == pu[2]
            firstID == q.buf[q.head].k - 1
        IN IF id >= firstID /\ (IF AsFound THEN id - firstID >= q.count
                                          ELSE id - firstID >= q.count - 1)
           THEN -1
           ELSE LET pos == IF id >= firstID THEN id - firstID ELSE -1
                    i == pos + q.head + 1
                IN IF i >= q.cap THEN i - q.cap ELSE i
    ELSE
        \* manual IDs: scan each(head) for the ID
        LET ix == Idx(q, q.head)
            hits == {n \in 1..Len(ix) : p.kind = "put" /\ q.buf[ix[n]].k = p.j}
        IN IF hits = {} THEN -1
           ELSE LET n == CHOOSE n \in hits : \A m \in hits : n <= m
                    i1 == ix[n] + 1
                IN IF AsFound
                   THEN (IF i1 = q.cap THEN 0 ELSE IF i1 = q.tail THEN -1 ELSE i1)
                   ELSE (LET i2 == IF i1 = q.cap THEN 0 ELSE i1
                         IN IF i2 = q.tail THEN -1 ELSE i2)

Intersects(a, b) == a \cap b # {}

\* Replay: sequence of put numbers handed to Send (no failure)
ImplReplay(q, p, tp, t) ==
    LET i == Find(q, p) IN
    IF i < 0 THEN <<>>
    ELSE LET ix == Idx(q, i)
             ok(n) == /\ Intersects(tp, q.buf[ix[n]].tp)
                      /\ (Kind = "valid" => q.buf[ix[n]].exp > t)
         IN [n \in 1..Len(SelectSeq([m \in 1..Len(ix) |-> m], ok)) |->
               q.buf[ix[SelectSeq([m \in 1..Len(ix) |-> m], ok)[n]]].k]

-----------------------------------------------------------------------------
(* The abstract reference                                                  *)

Live(t) == {j \in 1..Len(log) : j > gone /\ (Kind = "valid" => log[j].exp > t)}

\* put numbers j in increasing order satisfying a predicate
SeqOf(S) == LET RECURSIVE F(_, _)
                F(j, acc) == IF j > Len(log) THEN acc
                             ELSE F(j + 1, IF j \in S THEN Append(acc, j) ELSE acc)
            IN F(1, <<>>)

MatchingAfter(j0, tp, t) == SeqOf({j \in Live(t) : j > j0 /\ Intersects(tp, log[j].tp)})

\* the set of allowed Send sequences for a presented ID
Allowed(p, tp, t) ==
    IF p.kind # "put" THEN {<<>>}
    ELSE IF p.j \in Live(t) THEN {MatchingAfter(p.j, tp, t)}
    ELSE \* the ID of an evicted / expired / collected event: the property leaves it open
         \* (nothing, or everything still valid); with manual IDs an evicted ID replays nothing
         IF Kind = "finite" /\ ~Auto THEN {<<>>}
         ELSE {<<>>, MatchingAfter(0, tp, t)}

-----------------------------------------------------------------------------
(* Operations                                                              *)

Rec(op) == Append(hist, op)

\* a successful Put
PutOK(tp) ==
    /\ Len(log) < cfg.maxputs
    /\ LET q0 == IF Kind = "valid" /\ GCI > 0 /\ lastGC >= 0 /\ now - lastGC >= GCI
                 THEN DoGC(Q, now) ELSE Q
           didGC == Kind = "valid" /\ GCI > 0 /\ lastGC >= 0 /\ now - lastGC >= GCI
           q1 == IF Kind = "valid" /\ q0.count = q0.cap
                 THEN Resize(q0, Max(q0.cap * 2, 4)) ELSE q0
           e  == [k |-> Len(log) + 1, tp |-> tp, exp |-> IF Kind = "valid" THEN now + TTL ELSE 0]
           q2 == Enqueue(q1, e)
       IN /\ SetQ(q2)
          /\ lastGC' = IF Kind = "valid" /\ (lastGC < 0 \/ didGC) THEN now ELSE lastGC
          /\ log' = Append(log, [tp |-> tp, exp |-> e.exp])
          /\ gone' = IF Kind = "finite" THEN Max(0, Len(log) + 1 - N)
                     ELSE IF didGC THEN Max(gone, Cardinality({j \in 1..Len(log) : ~(log[j].exp > now)}))
                     ELSE gone
          /\ nextID' = IF Auto THEN nextID + 1 ELSE nextID
          /\ hist' = Rec([op |-> "put", tp |-> tp, res |-> "ok", k |-> Len(log) + 1])
    /\ pq' = Shape("put")
    /\ UNCHANGED <<cfg, bad, now, gci>>

\* a rejected Put: "notopic" (no topics), "idmismatch" (manual without ID / automatic with ID)
PutBad(why) ==
    /\ Len(bad) < MaxBad
    /\ bad' = Append(bad, <<Len(log), now, why>>)
    /\ pq' = Shape(why)
    /\ IF Kind = "valid" /\ why = "idmismatch"
       THEN \* the collection runs before the ID check
            LET didGC == GCI > 0 /\ lastGC >= 0 /\ now - lastGC >= GCI
                q0 == IF didGC THEN DoGC(Q, now) ELSE Q
            IN /\ SetQ(q0)
               /\ lastGC' = IF lastGC < 0 \/ didGC THEN now ELSE lastGC
               /\ gone' = IF didGC THEN Max(gone, Cardinality({j \in 1..Len(log) : ~(log[j].exp > now)})) ELSE gone
       ELSE UNCHANGED <<buf, cap, head, tail, count, lastGC, gone>>
    /\ hist' = Rec([op |-> "put", tp |-> {}, res |-> why, k |-> 0])
    /\ UNCHANGED <<cfg, nextID, now, log, gci>>

Tick(d) ==
    /\ Kind = "valid" /\ now + d <= MaxNow
    /\ now' = now + d /\ pq' = Shape("tick")
    /\ hist' = Rec([op |-> "tick", tp |-> {}, res |-> "", k |-> d])
    /\ UNCHANGED <<cfg, bad, buf, cap, head, tail, count, nextID, lastGC, gci, log, gone>>

GC ==
    /\ Kind = "valid"
    /\ SetQ(DoGC(Q, now)) /\ pq' = Shape("gc")
    /\ gone' = Max(gone, Cardinality({j \in 1..Len(log) : ~(log[j].exp > now)}))
    /\ hist' = Rec([op |-> "gc", tp |-> {}, res |-> "", k |-> 0])
    /\ UNCHANGED <<cfg, bad, nextID, now, lastGC, gci, log>>

\* the owner assigns another GCInterval: from the next Put on, a collection is due when that much time has passed since the last
\* collection point (the interval in force when that point was recorded does not matter)
SetGCI(g) ==
    /\ Kind = "valid" /\ g # gci
    /\ gci' = g /\ pq' = Shape("setgci")
    /\ hist' = Rec([op |-> "setgci", tp |-> {}, res |-> "", k |-> g])
    /\ UNCHANGED <<cfg, bad, buf, cap, head, tail, count, nextID, now, lastGC, log, gone>>

Next ==
    \/ \E tp \in PutTopics : PutOK(tp)
    \/ \E why \in {"notopic", "idmismatch"} : PutBad(why)
    \/ \E d \in {1, 2} : Tick(d)
    \/ GC
    \/ \E g \in GCIChanges : SetGCI(g)

Spec == Init /\ [][Next]_vars

-----------------------------------------------------------------------------
(* Invariants                                                              *)

TypeOK ==
    /\ 0 <= head /\ 0 <= tail /\ 0 <= count /\ count <= cap
    /\ (cap > 0 => head < cap /\ tail < cap)
    /\ DOMAIN buf = 0..(cap - 1)

\* the slots from head in order hold exactly the retained suffix of the abstract log
LiveIdx == IF count = 0 THEN <<>> ELSE
           IF head < tail THEN [i \in 1..(tail - head) |-> head + i - 1]
           ELSE [i \in 1..(cap - head) |-> head + i - 1] \o [i \in 1..tail |-> i - 1]

RingIsLog ==
    /\ Len(LiveIdx) = count
    /\ count = Len(log) - gone
    /\ \A n \in 1..count : /\ buf[LiveIdx[n]].k = gone + n
                           /\ buf[LiveIdx[n]].tp = log[gone + n].tp
                           /\ buf[LiveIdx[n]].exp = log[gone + n].exp

\* C18: no slot outside the live range holds a message; a finite replayer holds at most N
NoStaleSlot ==
    /\ \A i \in 0..(cap - 1) : (\A n \in 1..count : LiveIdx[n] # i) => buf[i] = None
    /\ (Kind = "finite" => Cardinality({i \in 0..(cap - 1) : buf[i] # None}) <= N)

\* C09: nothing unexpired is ever dropped by a collection or a resize
NoLoss == \A j \in 1..Len(log) : (Kind = "valid" /\ log[j].exp > now) => j > gone

\* C08 / C09: what the ring arithmetic replays is what the abstract log prescribes
ReplayOK == \A p \in Presented : \A tp \in SubTopics :
               ImplReplay(Q, p, tp, now) \in Allowed(p, tp, now)

\* C09: an event is never replayed at or after its expiry
NeverStale == \A p \in Presented : \A tp \in SubTopics :
                LET r == ImplReplay(Q, p, tp, now) IN
                \A n \in 1..Len(r) : Kind = "valid" => log[r[n]].exp > now

\* automatic IDs are consecutive from 0 over successful puts
AutoIDs == Auto => nextID = Len(log)

-----------------------------------------------------------------------------
(* Export (direction A): every reachable history, with the abstract        *)
(* expectation for every presented ID and topic set probed in its final    *)
(* state, the slots the spec says are populated (drift information) and    *)
(* the puts that must have become unreachable (C18).                       *)

Probes == { [lid |-> p, tp |-> tp, allowed |-> Allowed(p, tp, now)] : p \in Presented, tp \in SubTopics }

ExportRec ==
    [ kind |-> Kind, n |-> N, auto |-> Auto, ttl |-> TTL, gci |-> cfg.gci,
      ops |-> hist, now |-> now, probes |-> Probes,
      retained |-> {j \in 1..Len(log) : j > gone},
      dropped |-> {j \in 1..Len(log) : j <= gone},
      shape |-> [head |-> head, tail |-> tail, count |-> count, cap |-> cap,
                 slots |-> [i \in 1..cap |-> buf[i - 1].k]] ]

Export == hist # <<>> => PrintT(ToJson(ExportRec))

=============================================================================
