------------------------------ MODULE Tokenizer ------------------------------
(***************************************************************************)
(* TokenizerCore.tla over every input and every segmentation: TLC checks   *)
(* the refinement Tokenizer => StreamCore (C01's chunking independence at  *)
(* model level).                                                           *)
(***************************************************************************)
EXTENDS TokenizerCore

CONSTANTS Alphabet, MaxLen

-----------------------------------------------------------------------------
(* generation of inputs and segmentations *)

VARIABLES input, cuts
vars == <<input, cuts>>
Init == input = <<>> /\ cuts = <<>>
Gen(t) == Len(input) < MaxLen /\ input' = Append(input, t) /\ cuts' = <<>>
\* add a cut point after the last one
Cut(k) == /\ k \in 1..(Len(input) - 1) /\ (IF cuts = <<>> THEN TRUE ELSE k > cuts[Len(cuts)])
          /\ cuts' = Append(cuts, k) /\ input' = input
Next == (\E t \in Alphabet : cuts = <<>> /\ Gen(t)) \/ (\E k \in 1..MaxLen : Cut(k))
Spec == Init /\ [][Next]_vars

\* the refinement: for this input and this segmentation, both entry points
Refines == \A m \in {"read", "conn"} : Impl(input, cuts, m) = Ref(input, m)
=============================================================================
