------------------------------- MODULE Scanner -------------------------------
(***************************************************************************)
(* Size accounting of bufio.Scanner under go-sse's splitFunc and Buffer    *)
(* plumbing (internal/parser/parser.go, event.go, client_connection.go).   *)
(*                                                                         *)
(* The stream is abstracted to a sequence of units; a unit is a run of     *)
(* blank-line bytes followed by one event (its lines and the terminating   *)
(* blank line), because splitFunc hands out a token only when it has the   *)
(* whole of both in the buffer and keeps leading blank lines in the buffer *)
(* until then.  The stream may end with a partial unit.                    *)
(*                                                                         *)
(* The scanner: a buffer of blen bytes holding stream bytes start..end;    *)
(* Split delivers the current unit if it is complete in the buffer;        *)
(* otherwise the buffer is compacted, grown (4096 * 2^k, capped at the     *)
(* limit) or the scan fails with ErrTooLong, and more bytes are read.      *)
(*                                                                         *)
(* Properties served: C20.                                                 *)
(***************************************************************************)
EXTENDS Integers, Sequences, FiniteSets, TLC, Json

CONSTANTS
    Cfgs,      \* [entry |-> "read"|"conn", initcap |-> cap(buf) given, max |-> maxSize given (0 = unset)]
    Streams,   \* set of streams: [units |-> <<[b, e], ...>>, tail |-> [kind, n]]
               \*   tail kinds: "none" | "blank" (n blank-line bytes) | "line" (unterminated line of n bytes)
               \*               | "event" (n bytes of terminated lines without the final blank line)
    Policies   \* how many bytes a Read call returns: 0 = as many as requested, k > 0 = at most k

StartBuf == 4096
DefaultMax == 65536

VARIABLES cfg, stream, policy,
          blen,      \* len(s.buf)
          start, end,\* stream offsets of the buffered bytes (end - start bytes are buffered)
          bstart,    \* s.start: index in the buffer of the first unconsumed byte
          read,      \* bytes handed out by the reader so far
          atEOF,     \* the reader has reported the end
          ndeliv,    \* units delivered
          status,    \* "scanning" | "eof" | "toolong"
          maxreq,    \* observation: the largest read request
          maxbuffered\* observation: max(read - end offset of the last delivered unit)
vars == <<cfg, stream, policy, blen, start, end, bstart, read, atEOF, ndeliv, status, maxreq, maxbuffered>>

Max(a, b) == IF a > b THEN a ELSE b
Min(a, b) == IF a < b THEN a ELSE b

\* the effective limit: bufio.Scanner fails when the buffer is full and len(buf) >= maxTokenSize
MaxTok(c) == IF c.max > 0 \/ c.initcap > 0 THEN c.max ELSE DefaultMax
Limit(c)  == Max(c.initcap, MaxTok(c))

UnitSize(u) == u.b + u.e
RECURSIVE SumUnits(_)
SumUnits(us) == IF us = <<>> THEN 0 ELSE UnitSize(Head(us)) + SumUnits(Tail(us))
Total(s) == SumUnits(s.units) + s.tail.n

\* offset at which unit k ends
EndOf(s, k) == SumUnits(SubSeq(s.units, 1, k))

Init ==
    /\ cfg \in Cfgs /\ stream \in Streams /\ policy \in Policies
    /\ blen = cfg.initcap
    /\ start = 0 /\ end = 0 /\ bstart = 0 /\ read = 0 /\ atEOF = FALSE /\ ndeliv = 0
    /\ status = "scanning" /\ maxreq = 0 /\ maxbuffered = 0

\* the unit in progress is complete in the buffer: Split returns it as a token
CanDeliver == ndeliv < Len(stream.units) /\ EndOf(stream, ndeliv + 1) <= end

Deliver ==
    /\ status = "scanning" /\ CanDeliver
    /\ LET u == UnitSize(stream.units[ndeliv + 1]) IN
       /\ start' = start + u /\ bstart' = bstart + u
    /\ ndeliv' = ndeliv + 1
    /\ UNCHANGED <<cfg, stream, policy, blen, end, read, atEOF, status, maxreq, maxbuffered>>

\* at the end of input the rest (a partial unit) is handed out as the last token, or there is none
Finish ==
    /\ status = "scanning" /\ ~CanDeliver /\ atEOF
    /\ status' = "eof" /\ start' = end /\ bstart' = 0
    /\ UNCHANGED <<cfg, stream, policy, blen, end, read, atEOF, ndeliv, maxreq, maxbuffered>>

\* the buffer is full and cannot grow
TooLong ==
    /\ status = "scanning" /\ ~CanDeliver /\ ~atEOF
    /\ (end - start) + (IF bstart > 0 /\ ((bstart + (end - start)) = blen \/ bstart > blen \div 2) THEN 0 ELSE bstart) = blen
    /\ blen >= MaxTok(cfg) /\ blen > 0
    /\ status' = "toolong"
    /\ UNCHANGED <<cfg, stream, policy, blen, start, end, bstart, read, atEOF, ndeliv, maxreq, maxbuffered>>

\* compaction, growth and one Read call
Fill(got) ==
    /\ status = "scanning" /\ ~CanDeliver /\ ~atEOF
    /\ LET compact == bstart > 0 /\ ((bstart + (end - start)) = blen \/ bstart > blen \div 2)
           bs1  == IF compact THEN 0 ELSE bstart
           full == bs1 + (end - start) = blen
           nb   == IF ~full THEN blen
                   ELSE Min(IF blen = 0 THEN StartBuf ELSE blen * 2, Max(MaxTok(cfg), 1))
           req  == nb - (bs1 + (end - start))
           rem  == Total(stream) - read
       IN /\ (full => blen < MaxTok(cfg) \/ blen = 0)
          /\ nb > blen \/ ~full
          /\ req > 0
          /\ IF rem = 0 THEN got = 0 ELSE got = Min(rem, IF policy = 0 THEN req ELSE Min(req, policy))
          /\ blen' = nb /\ bstart' = bs1
          /\ end' = end + got /\ read' = read + got
          /\ atEOF' = (rem = 0)
          /\ maxreq' = Max(maxreq, req)
          /\ maxbuffered' = Max(maxbuffered, read + got - EndOf(stream, ndeliv))
    /\ UNCHANGED <<cfg, stream, policy, start, ndeliv, status>>

\* what a Read call returns is a function of the state and the policy
FillDet ==
    /\ status = "scanning" /\ ~CanDeliver /\ ~atEOF
    /\ LET compact == bstart > 0 /\ ((bstart + (end - start)) = blen \/ bstart > blen \div 2)
           bs1  == IF compact THEN 0 ELSE bstart
           full == bs1 + (end - start) = blen
           nb   == IF ~full THEN blen ELSE Min(IF blen = 0 THEN StartBuf ELSE blen * 2, Max(MaxTok(cfg), 1))
           req  == nb - (bs1 + (end - start))
           rem  == Total(stream) - read
       IN Fill(IF rem = 0 THEN 0 ELSE Min(rem, IF policy = 0 THEN req ELSE Min(req, policy)))
Terminal == status # "scanning"
\* terminal states stutter, so that TLC's deadlock check means: the scan cannot get stuck before it ends
Stop == Terminal /\ UNCHANGED vars
Next == Deliver \/ Finish \/ TooLong \/ FillDet \/ Stop

Spec == Init /\ [][Next]_vars

-----------------------------------------------------------------------------
(* C20                                                                     *)

\* memory: the buffer never exceeds the limit, and never holds more than it can
Bounded == /\ blen <= Max(Limit(cfg), 0) /\ end - start <= blen /\ bstart + (end - start) <= blen
\* bytes pulled from the reader beyond the last completed event never exceed the limit
ReadAhead == read - EndOf(stream, ndeliv) <= Limit(cfg)
\* ErrTooLong only when the unit in progress cannot fit
TooLongOnlyIfOversized ==
    status = "toolong" =>
        IF ndeliv < Len(stream.units) THEN UnitSize(stream.units[ndeliv + 1]) > Limit(cfg)
        ELSE stream.tail.n >= Limit(cfg)
\* every unit smaller than the limit is delivered: the scan ends by EOF with everything delivered,
\* or fails at the first unit that is not smaller than the limit
FirstBig == LET I == {k \in 1..Len(stream.units) : UnitSize(stream.units[k]) >= Limit(cfg)} IN
            IF I = {} THEN 0 ELSE CHOOSE k \in I : \A j \in I : k <= j
Complete ==
    Terminal =>
      IF FirstBig = 0 /\ stream.tail.n < Limit(cfg)
      THEN status = "eof" /\ ndeliv = Len(stream.units)
      ELSE IF FirstBig > 0 /\ UnitSize(stream.units[FirstBig]) > Limit(cfg)
           THEN status = "toolong" /\ ndeliv = FirstBig - 1
           ELSE TRUE      \* a unit of exactly the limit may go either way
\* termination: every step increases read, ndeliv or blen or ends the scan, and TLC's deadlock check
\* (CHECK_DEADLOCK TRUE) shows that a non-terminal state always has a step
Variant == [][Terminal \/ read' > read \/ ndeliv' > ndeliv \/ blen' > blen \/ status' # status \/ atEOF' # atEOF]_vars

-----------------------------------------------------------------------------
ExportRec == [cfg |-> cfg, limit |-> Limit(cfg), stream |-> stream, policy |-> policy, status |-> status,
              delivered |-> ndeliv, maxreq |-> maxreq, maxbuffered |-> maxbuffered, finalbuf |-> blen]
Export == Terminal => PrintT(ToJson(ExportRec))
=============================================================================
