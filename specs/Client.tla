------------------------------- MODULE Client -------------------------------
(***************************************************************************)
(* client.go / client_connection.go: the Connection.Connect loop at the    *)
(* grain of the code — request reset (Last-Event-ID header, body), the     *)
(* attempt and its outcome, response validation, the stream consumed       *)
(* through StreamCore's interpretation in "conn" mode (seeded with the     *)
(* stored last event ID), outcome classification, the backoff controller   *)
(* (interval, retry count, growth, cap, reset on success, server retry     *)
(* field) and the wait, which a cancellation may interrupt.                *)
(*                                                                         *)
(* The environment (what each attempt meets) is nondeterministic and       *)
(* recorded in hist; everything the code must then do is deterministic and *)
(* recorded as observations, exported for replay against the real          *)
(* Connection with a scripted http.RoundTripper (direction A).             *)
(*                                                                         *)
(* Properties served: C10 (header, body), C11 (why Connect returns),       *)
(* C12 (retry schedule).                                                   *)
(***************************************************************************)
EXTENDS StreamCore

CONSTANTS
    Cfgs,         \* configurations [maxRetries, initial, mulNum, mulDen, maxInterval, jitter, body]
                  \*   intervals in nanoseconds;
                  \*   jitter: "none" (Jitter -1) | "default" (unset -> 0.5) | "quarter" (0.25)
                  \*   body: "nil" | "nobody" | "getbody" | "nogetbody" | "failgetbody"
    Bodies,       \* response bodies a successful attempt may carry (token sequences)
    Ends,         \* how a response body may end: subset of {"clean", "error", "errctx", "errwrapeof", "cancel", "cancel_eof", "cancel_cb"}
                  \*   "cancel_cb": a callback cancels the context while the first event of this connection is being
                  \*   dispatched; the body then ends cleanly (nothing is cancelled when the body holds no event)
                  \*   "errwrapeof": a read error that wraps io.EOF (a transport wrapper's): a read error, not a clean end
                  \*   "erriou": the read error io.ErrUnexpectedEOF (net/http: body shorter than announced): a read error like any other
                  \*   "cancel_eof": the body ends cleanly at the very instant the context is cancelled
                  \*   "errctx": a read error that is a context error (a transport's own deadline) while the
                  \*   request's context is alive - an ordinary, retryable read error
    Outcomes,     \* what an attempt may meet: subset of {"transport", "transport_ctx", "reject", "reject_temp", "stream", "cancel_do"}
                  \*   "reject_temp": the validator's error calls itself temporary (Temporary() / Timeout() true): a verdict all the same
                  \*   "transport_ctx": Do fails with a deadline error that is not the request context's
    MaxAttempts,  \* scripted attempts per history; the attempt after the last one meets a cancelled context
    CancelInWait, \* TRUE: a cancellation may also arrive during a wait
    MaxConnects   \* Connect calls on the one Connection: after Connect returned for another reason than the context, the caller may
                  \* call it again (a new backoff, the Connection's state - last event ID, "this is a retry" - persists)

\* Intervals are in nanoseconds, like time.Duration, so that growth by the multiplier truncates exactly as
\* the code's float arithmetic does.  TLC integers are 32 bit: a server retry value of more than two
\* digits of milliseconds is carried as HUGE (and compared numerically by the driver).
HUGE == 2000000000
UnitsPerMs == 1000000

VARIABLES
    cfg, pc,
    lastEventID,  \* c.lastEventID
    isRetry,      \* c.isRetry
    interval, numRetries,   \* backoffController
    attempts,     \* attempts made
    cur,          \* the attempt in progress: [body, end]
    curErr,       \* class of the error of the attempt that just ended
    result,       \* what Connect returned ("" while running)
    results,      \* what the earlier Connect calls on this Connection returned
    everConnected,\* ghost: a connection succeeded at least once
    reqs,         \* observation: per attempt [hdr, getBody]  (hdr: <<"absent">> or <<"value", tokens>>)
    events,       \* observation: events dispatched to callbacks, over all connections
    waits,        \* observation: per OnRetry call [err, base]
    hist          \* the environment's choices
vars == <<cfg, pc, lastEventID, isRetry, interval, numRetries, attempts, cur, curErr, result, everConnected, reqs, events, waits, hist>>

R(k) == [kind |-> k, err |-> ""]

\* mergeDefaults: an InitialInterval <= 0 becomes 500 ms, a Multiplier < 1 becomes 1.5 (a Jitter of -1 is kept, any other
\* value outside (0, 1) becomes 0.5: the jitter classes of Cfgs are "none" / "default" / "quarter")
DefaultInitial == 500000000
EffInitial == IF cfg.initial <= 0 THEN DefaultInitial ELSE cfg.initial
EffMulNum  == IF cfg.mulNum < cfg.mulDen THEN 3 ELSE cfg.mulNum
EffMulDen  == IF cfg.mulNum < cfg.mulDen THEN 2 ELSE cfg.mulDen

Init ==
    /\ cfg \in Cfgs /\ pc = "reset"
    /\ lastEventID = <<>> /\ isRetry = FALSE
    /\ interval = (IF cfg.initial <= 0 THEN DefaultInitial ELSE cfg.initial) /\ numRetries = 0
    /\ attempts = 0 /\ cur = [body |-> <<>>, end |-> "clean", ctxdone |-> FALSE] /\ curErr = "" /\ result = R("") /\ results = <<>>
    /\ everConnected = FALSE
    /\ reqs = <<>> /\ events = <<>> /\ waits = <<>> /\ hist = <<>>

Done(r) == /\ result' = r /\ pc' = "done"

\* resetRequest: first attempt leaves the request alone; later ones re-obtain the body and set/delete the header
ResetRequest ==
    /\ pc = "reset"
    /\ IF ~isRetry THEN
          /\ isRetry' = TRUE /\ pc' = "do"
          /\ reqs' = Append(reqs, [hdr |-> <<"absent">>, getBody |-> 0])
          /\ UNCHANGED result
       ELSE IF cfg.body = "nogetbody" THEN
          /\ Done(R("nogetbody")) /\ UNCHANGED <<isRetry, reqs>>
       ELSE IF cfg.body = "failgetbody" THEN
          /\ Done(R("getbodyerr")) /\ UNCHANGED <<isRetry, reqs>>
       ELSE
          /\ pc' = "do"
          /\ reqs' = Append(reqs, [hdr |-> IF lastEventID = <<>> THEN <<"absent">> ELSE <<"value", lastEventID>>,
                                   getBody |-> IF cfg.body = "getbody" THEN 1 ELSE 0])
          /\ UNCHANGED <<isRetry, result>>
    /\ UNCHANGED <<cfg, results, lastEventID, interval, numRetries, attempts, cur, curErr, everConnected, events, waits, hist>>

\* HTTPClient.Do and the response validator
Do(o, body, end) ==
    /\ pc = "do"
    /\ attempts' = attempts + 1
    /\ IF attempts >= MaxAttempts THEN
          \* the script is over: the environment cancels the context, Do reports it
          /\ o = "cancel_do" /\ body = <<>> /\ end = "clean"
          /\ Done(R("ctx")) /\ hist' = hist
          /\ UNCHANGED <<cur, curErr>>
       ELSE
          /\ o \in Outcomes
          /\ (o # "stream" => body = <<>> /\ end = "clean")
          /\ hist' = Append(hist, [o |-> o, body |-> body, end |-> end])
          /\ CASE o \in {"transport", "transport_ctx"} -> /\ curErr' = o /\ pc' = "next" /\ UNCHANGED <<cur, result>>
               [] o = "cancel_do" -> /\ Done(R("ctx")) /\ UNCHANGED <<cur, curErr>>
               [] o \in {"reject", "reject_temp"} -> /\ Done(R("validator")) /\ UNCHANGED <<cur, curErr>>
               [] o = "stream"    -> /\ cur' = [body |-> body, end |-> end, ctxdone |-> FALSE] /\ pc' = "read" /\ UNCHANGED <<curErr, result>>
    /\ UNCHANGED <<cfg, results, lastEventID, isRetry, interval, numRetries, everConnected, reqs, events, waits>>

Digits(t) == CASE t = "d1" -> <<1>> [] t = "d07" -> <<0, 7>> [] t = "d0" -> <<0>> [] t = "d2" -> <<2>> [] t = "d3" -> <<3>>
              [] t = "d4" -> <<4>> [] t = "d5" -> <<5>> [] t = "d6" -> <<6>> [] t = "d7" -> <<7>> [] t = "d8" -> <<8>> [] t = "d9" -> <<9>>
              [] OTHER -> <<>>
RECURSIVE DigitSeq(_)
DigitSeq(v) == IF v = <<>> THEN <<>> ELSE Digits(Head(v)) \o DigitSeq(Tail(v))
RECURSIVE Num(_)
Num(ds) == IF ds = <<>> THEN 0 ELSE Num(SubSeq(ds, 1, Len(ds) - 1)) * 10 + ds[Len(ds)]
\* strip leading zeros, then: more than 6 digits -> HUGE
RECURSIVE StripZeros(_)
StripZeros(ds) == IF ds # <<>> /\ ds[1] = 0 THEN StripZeros(Tail(ds)) ELSE ds
RetryUnits(v) == LET ds == StripZeros(DigitSeq(v)) IN IF Len(ds) > 2 THEN HUGE ELSE Num(ds) * UnitsPerMs

\* a successful connection: the backoff is reset, the stream is read to its end
Read ==
    /\ pc = "read"
    /\ LET st == Interpret(cur.body, IF cur.end \in {"cancel_eof", "cancel_cb"} THEN "clean" ELSE cur.end, "conn", lastEventID)
           r  == IF st.retries = <<>> THEN 0 ELSE RetryUnits(st.retries[Len(st.retries)])
       IN /\ events' = events \o st.out
          /\ lastEventID' = IF st.out = <<>> THEN lastEventID ELSE st.out[Len(st.out)].id
          /\ interval' = IF r > 0 THEN r ELSE EffInitial
          /\ numRetries' = 0
          /\ IF st.status = "cancelled" THEN Done(R("ctx")) /\ UNCHANGED curErr
             ELSE /\ curErr' = (CASE st.status = "eof" -> "eof"
                                  [] st.status = "unexpected_eof" -> "unexpected_eof"
                                  [] st.status = "read_error" -> IF cur.end = "errctx" THEN "errctx" ELSE IF cur.end = "errwrapeof" THEN "wrapeof"
                                                                 ELSE IF cur.end = "erriou" THEN "iou" ELSE "boom")
                  /\ pc' = "next" /\ UNCHANGED result
    /\ everConnected' = TRUE
    /\ cur' = [cur EXCEPT !.ctxdone = (cur.end = "cancel_eof" \/
                                        (cur.end = "cancel_cb" /\ Interpret(cur.body, "clean", "conn", lastEventID).out # <<>>))]
    /\ UNCHANGED <<cfg, results, isRetry, attempts, reqs, waits, hist>>

\* (i * num >= max * den, written without a product that TLC's integers cannot hold: num may be HUGE, "a multiplier beyond anything")
Grow(i) == IF cfg.maxInterval > 0 /\ i >= (cfg.maxInterval * EffMulDen + EffMulNum - 1) \div EffMulNum THEN cfg.maxInterval
           ELSE IF i >= (HUGE \div EffMulNum) * EffMulDen THEN HUGE    \* beyond what TLC's integers (and the driver's patience) hold
           ELSE (i \div EffMulDen) * EffMulNum + ((i % EffMulDen) * EffMulNum) \div EffMulDen   \* = floor(i * num / den), without overflow

\* backoff.next(): limit check, then the wait is the current interval and the interval grows
BackoffNext ==
    /\ pc = "next"
    /\ IF cfg.maxRetries < 0 \/ (cfg.maxRetries > 0 /\ numRetries = cfg.maxRetries)
       THEN /\ Done([kind |-> "exhausted", err |-> curErr]) /\ UNCHANGED <<numRetries, interval, waits>>
       ELSE /\ numRetries' = numRetries + 1
            /\ waits' = Append(waits, [err |-> curErr, base |-> interval])
            /\ interval' = IF interval >= HUGE THEN HUGE ELSE Grow(interval)
            /\ pc' = "wait" /\ UNCHANGED result
    /\ UNCHANGED <<cfg, results, lastEventID, isRetry, attempts, cur, curErr, everConnected, reqs, events, hist>>

\* the timer fires ...
Wait ==
    /\ pc = "wait" /\ waits[Len(waits)].base < HUGE /\ ~cur.ctxdone
    /\ pc' = "reset"
    /\ UNCHANGED <<cfg, results, lastEventID, isRetry, interval, numRetries, attempts, cur, curErr, result, everConnected, reqs, events, waits, hist>>
\* ... or the context is cancelled first (always the case for a wait of 10^12 ms)
CancelDuringWait ==
    /\ pc = "wait" /\ (CancelInWait \/ waits[Len(waits)].base >= HUGE \/ cur.ctxdone)
    /\ Done(R("ctx")) /\ hist' = Append(hist, [o |-> "cancel_wait", body |-> <<>>, end |-> "clean"])
    /\ UNCHANGED <<cfg, results, lastEventID, isRetry, interval, numRetries, attempts, cur, curErr, everConnected, reqs, events, waits>>

\* Connect has returned (not because of the context) and is called again on the same Connection: a new backoff controller;
\* the Connection remembers the last event ID and that the next attempt is a retry (header set, body re-obtained)
Reconnect ==
    /\ pc = "done" /\ result.kind \in {"validator", "exhausted", "nogetbody", "getbodyerr"} /\ Len(results) + 1 < MaxConnects
    /\ results' = Append(results, result) /\ result' = R("") /\ pc' = "reset"
    /\ interval' = EffInitial /\ numRetries' = 0 /\ curErr' = ""
    /\ hist' = Append(hist, [o |-> "reconnect", body |-> <<>>, end |-> "clean"])
    /\ UNCHANGED <<cfg, lastEventID, isRetry, attempts, cur, everConnected, reqs, events, waits>>

Next ==
    \/ Reconnect
    \/ ResetRequest
    \/ \E o \in Outcomes \cup {"cancel_do"}, b \in Bodies \cup {<<>>}, e \in Ends \cup {"clean"} : Do(o, b, e)
    \/ Read \/ BackoffNext \/ Wait \/ CancelDuringWait

Spec == Init /\ [][Next]_vars

-----------------------------------------------------------------------------
(* Properties of the loop (TLC, every reachable state)                      *)

Cancelled == \E i \in 1..Len(hist) : hist[i].o \in {"cancel_do", "cancel_wait"} \/ (hist[i].o = "stream" /\ hist[i].end = "cancel")
\* (a context cancelled at the instant the stream ends cleanly leads to the context's error through the wait,
\* or - when no retry is left - to that attempt's error: the property does not say which wins)

\* C11: Connect never returns nil, and only for a reason
Reason ==
    pc = "done" =>
      /\ result.kind \in {"ctx", "validator", "nogetbody", "getbodyerr", "exhausted"}
      /\ (result.kind = "ctx" <=> (Cancelled \/ attempts > MaxAttempts))
      /\ (result.kind = "validator" => hist[Len(hist)].o \in {"reject", "reject_temp"})
      /\ (result.kind \in {"nogetbody", "getbodyerr"} => attempts >= 1 /\ cfg.body \in {"nogetbody", "failgetbody"})
      /\ (result.kind = "exhausted" =>
            /\ result.err \in {"transport", "transport_ctx", "eof", "unexpected_eof", "boom", "errctx", "wrapeof", "iou"}
            /\ (cfg.maxRetries < 0 \/ numRetries = cfg.maxRetries))
\* C11: a permanent failure is never followed by another attempt; a retryable one always by BackoffNext
NoRetryAfterPermanent == \A i \in 1..(Len(hist) - 1) : hist[i].o \in {"reject", "reject_temp", "cancel_do", "cancel_wait"} => hist[i + 1].o = "reconnect"
\* C12: at most MaxRetries waits in a row without a successful connection in between (none if negative)
RetryCount == /\ (cfg.maxRetries < 0 => waits = <<>>)
              /\ (cfg.maxRetries > 0 => numRetries <= cfg.maxRetries)
\* C12: the interval never exceeds the cap once it has grown
Capped == (cfg.maxInterval > 0 /\ numRetries > 1 /\ interval < HUGE) => interval <= cfg.maxInterval
\* C10: the header is absent on the first attempt and otherwise tells the last dispatched event's ID
HeaderRule == \A i \in 1..Len(reqs) : (i = 1 => reqs[i].hdr = <<"absent">>) /\ (reqs[i].hdr # <<"absent">> => reqs[i].hdr[2] # <<>>)
\* C10: a consumed body is never re-sent: every retry with a body re-obtained it
BodyRule == \A i \in 2..Len(reqs) : cfg.body = "getbody" <=> reqs[i].getBody = 1

-----------------------------------------------------------------------------
ExportRec == [cfg |-> cfg, script |-> hist, reqs |-> reqs, events |-> events, waits |-> waits,
              result |-> result, results |-> results, attempts |-> attempts, maxAttempts |-> MaxAttempts]
Export == pc = "done" => PrintT(ToJson(ExportRec))
=============================================================================
