---------------------------- MODULE MessageTrace ----------------------------
(***************************************************************************)
(* Direction B for Message: what the real encoder wrote, validated by the  *)
(* specification.  The driver builds real messages, records the bytes they *)
(* encode to (tokenised with Bytes.tla's table) and the Write calls WriteTo*)
(* made on a fault-injecting writer; each recorded case is accepted only   *)
(* if the reference interpreter (StreamCore, the "spec-conforming parser") *)
(* decodes the real bytes to exactly the events MessageCore prescribes,    *)
(* and if the byte accounting of the recorded writes adds up.              *)
(***************************************************************************)
EXTENDS MessageCore, IOUtils

Cases == ndJsonDeserialize(IOEnv.CASES)

VARIABLE l
vars == <<l>>

Msg(r) == [id |-> r.id, type |-> r.type, retry |-> r.retry, val |-> r.chunks]
Msgs(c) == [i \in 1..Len(c.msgs) |-> Msg(c.msgs[i])]

\* the real bytes of the concatenated messages, decoded by the reference interpreter
WireCase(c) ==
    LET st == Interpret(c.got, "clean", "whatwg", <<>>)
        sr == Interpret(c.got, "clean", "read", <<>>)
    IN /\ st.out = Expected(Msgs(c), "whatwg")
       /\ sr.out = Expected(Msgs(c), "read")
       /\ sr.status = "eof"

RECURSIVE SumAcc(_)
SumAcc(ws) == IF ws = <<>> THEN 0 ELSE Head(ws).acc + SumAcc(Tail(ws))

\* WriteTo on a writer that fails / stops accepting bytes at one Write
WritesCase(c) ==
    LET ws == c.writes
        failing == {k \in 1..Len(ws) : ws[k].err}
    IN /\ c.n = SumAcc(ws)                                        \* exactly the bytes the writer accepted
       /\ (c.err <=> failing # {})                                \* the writer's error is returned ...
       /\ \A k \in failing : k = Len(ws)                          \* ... and nothing is written after it
       /\ \A k \in 1..Len(ws) : ws[k].acc <= ws[k].len /\ (ws[k].acc < ws[k].len => ws[k].err)
       /\ (failing = {} => c.n = SeqLen(Wire(Msg(c.msg))))         \* a fault-free run writes the whole encoding
       /\ (Wire(Msg(c.msg)) = <<>> => ws = <<>>)                   \* nothing to write: no Write at all
       /\ c.prefix                                                 \* accepted bytes are a prefix of the fault-free encoding (compared bytewise by the driver)

Check(c) == CASE c.kind = "wire" -> WireCase(c) [] c.kind = "writes" -> WritesCase(c)

Init == l = 1
Next == l <= Len(Cases) /\ Check(Cases[l]) /\ l' = l + 1
Spec == Init /\ [][Next]_vars

ASSUME TLCSet(1, 0)
HighWater == TLCSet(1, IF l > TLCGet(1) THEN l ELSE TLCGet(1))
Accepted == IF TLCGet(1) = Len(Cases) + 1 THEN TRUE
            ELSE Print(<<"REJECTED at case", TLCGet(1), Cases[TLCGet(1)]>>, FALSE)
=============================================================================
