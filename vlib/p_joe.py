"""C03 C04 C06 C07 C17 (Joe.tla, JoeTrace.tla): the provider, by exhaustive model checking of its channel
operations and by validation of traces recorded from the real Joe under seeded schedules."""
import json
import shutil
import os
import re
import subprocess

from . import core
from .core import Raw


def run_scenarios(ctx, focus, n, base, tag, race=False):
    """Runs n scenarios in a child process.  Returns (trace_path, crashed_info | None, blocked_info | None)."""
    binp = core.build_harness(ctx, race)
    trace = os.path.join(ctx.work, "joe-%s-%d.ndjson" % (tag, base))
    errp = trace + ".err"
    with open(errp, "w") as fe:
        try:
            p = subprocess.run([binp, "joe", "-n", str(n), "-base", str(base), "-o", trace, "-focus", focus], stderr=fe, stdout=subprocess.DEVNULL,
                               timeout=1200, env=dict(core.GOENV, VERIF_SEED=str(ctx.seed)))
            rc = p.returncode
        except subprocess.TimeoutExpired:
            raise core.ToolFailure("joe driver timed out (%s base %d)" % (focus, base))
    err = open(errp, errors="replace").read()
    last = re.findall(r"^SCENARIO (\d+)$", err, re.M)
    last_seed = int(last[-1]) if last else None
    if rc == 0:
        return trace, None, None
    if rc == 3:
        return trace, None, dict(seed=last_seed, focus=focus, dump=err[err.find("BLOCKED"):][:6000])
    m = re.search(r"^(panic: .*|fatal error: .*)$", err, re.M)
    if m:
        i = err.find(m.group(1))
        return trace, dict(seed=last_seed, focus=focus, panic=m.group(1), stack=err[i:i + 3000]), None
    raise core.ToolFailure("joe driver failed rc=%d: %s" % (rc, err[-2000:]))


def in_library(stack):
    """A crash counts against the library only if Joe's own code is on the panicking goroutine's stack."""
    parts = stack.split("\n\ngoroutine")
    head = parts[1] if len(parts) > 1 else stack
    return "go-sse.(*Joe)" in head or "/joe.go" in head


def collect_traces(ctx, focus, total, tag, agg, chunk=250, race=False, runner=None, base=None):
    """Runs `total` scenarios in chunks; crashes and blocked calls are reported; returns the list of trace files."""
    traces = []
    if base is None:
        base = ctx.seed * 1000000 + 1
    if runner is None:
        runner = lambda n, b, tg: run_scenarios(ctx, focus, n, b, tg, race)
    done = 0
    import time as _time
    while done < total:
        n = min(chunk, total - done)
        _t0 = _time.time()
        trace, crashed, blocked = runner(n, base + done, tag)
        if not crashed and not blocked and n >= 5:
            per = (_time.time() - _t0) / n
            agg["per_scenario_s"] = min(agg.get("per_scenario_s", per), per)
        elif blocked and blocked.get("seed") is not None and blocked["seed"] - (base + done) >= 3:
            # the scenarios before the blocked one ran normally: the 10 s (5 s) of the blocked one aside, how long did they take?
            per = max(0.0, _time.time() - _t0 - 10.0) / (blocked["seed"] - (base + done))
            agg["per_scenario_s"] = min(agg.get("per_scenario_s", per), per)
        if blocked:
            # the recording of the scenario that missed its deadline was cut there: it is no complete scenario, and whether the
            # call blocks is decided by the re-run rule below - it is validated as a prefix (everything but AllReturned)
            lines = open(trace).read().splitlines()
            resets = [j for j, l in enumerate(lines) if '"e":"reset"' in l]
            if resets:
                with open(trace, "w") as f:
                    f.write("".join(l + "\n" for l in lines[:resets[-1]]))
                cut = trace + ".cut.ndjson"
                with open(cut, "w") as f:
                    f.write("".join(l + "\n" for l in lines[resets[-1]:]))
                agg.setdefault("cut_traces", []).append(cut)
        traces.append(trace)
        if crashed:
            agg["crashes"] += 1
            if in_library(crashed["stack"]):
                core.report(ctx, "Joe crashed the process in scenario %s (%s): %s" % (crashed["seed"], focus, crashed["panic"]),
                            {"driver": "joe", "scenario_seed": crashed["seed"], "focus": focus, "panic": crashed["panic"], "stack": crashed["stack"]},
                            "joe:crash:" + crashed["panic"])
            else:
                raise core.ToolFailure("the scenario driver itself crashed: %s\n%s" % (crashed["panic"], crashed["stack"]))
            # continue after the crashing scenario (three crashes are verdict enough)
            if agg["crashes"] >= 3:
                agg["stop"] = True
                return traces
            done = (crashed["seed"] - base) + 1
            continue
        if blocked:
            # C07: a verdict only if the same scenario blocks again in two fresh runs; then one is enough
            again = 0
            for _ in range(2):
                _, c2, b2 = runner(1, blocked["seed"], tag + "-reblock")
                if b2:
                    again += 1
            if again == 2:
                core.report(ctx, "a provider call blocked (3 of 3 runs) in scenario %s (%s)" % (blocked["seed"], focus),
                            {"driver": "joe", "scenario_seed": blocked["seed"], "focus": focus, "goroutines": blocked["dump"]}, "joe:blocked")
                agg["stop"] = True
                return traces
            agg["notes"]["unreproduced_timeouts"] = agg["notes"].get("unreproduced_timeouts", 0) + 1
            agg.setdefault("blocked_once", []).append(blocked["seed"])
            if agg["notes"]["unreproduced_timeouts"] > 3:
                # Four different scenarios in which a call did not come back within 10 s, none of which blocks again under the same
                # seed: the blocking depends on the schedule (a runtime choice), not on the scenario.  It is a verdict only when the
                # machine is demonstrably responsive - the other scenarios of this run took milliseconds each.
                per = agg.get("per_scenario_s")
                if per is not None and per < 1.0:
                    core.report(ctx, "provider calls blocked (10 s) in %d different scenarios %s (%s); the same seeds did not block again: the blocking depends on the schedule"
                                % (len(agg["blocked_once"]), agg["blocked_once"], focus),
                                {"driver": "joe", "scenario_seeds": agg["blocked_once"], "focus": focus, "goroutines": blocked["dump"],
                                 "seconds_per_scenario_otherwise": per}, "joe:blocked-sometimes")
                    agg["stop"] = True
                    return traces
                raise core.ToolFailure("scenarios keep missing their deadline without blocking reproducibly (last: %s)" % blocked["seed"])
            done = (blocked["seed"] - base) + 1
            continue
        done += n
    return traces


TRACE_INVS = ["NoPanic", "NoLateCall", "Delivery", "Complete", "Flushed", "ProgramOrder", "Resume", "NoDuplicates", "PutError",
              "ShutdownValues", "AtMostOneCloser", "AllReturned"]


SUBS = ["s0", "s1", "s2", "slate"]
PUBS = ["h0", "h1", "h2", "h3", "h4"] + ["p%dk%d" % (g, k) for g in range(3) for k in range(3)] + ["late"]
DOWNS = ["k0", "k1", "k2", "k9"]
NONE = "<none>"


def pub_after():
    after = {p: NONE for p in PUBS}
    for i in range(1, 5):
        after["h%d" % i] = "h%d" % (i - 1)
    for g in range(3):
        for k in range(1, 3):
            after["p%dk%d" % (g, k)] = "p%dk%d" % (g, k - 1)
    return Raw("(" + " @@ ".join('"%s" :> "%s"' % (p, a) for p, a in after.items()) + ")")


def validate_joe_trace(ctx, trace, tag, invariants=None):
    """Validates one trace file against JoeTrace.tla.  Returns (ok, rejection text, TLCResult).
    The identities are the driver's fixed universe (given as explicit constants: TLC would otherwise
    re-evaluate them from the trace in every state)."""
    consts = {"Subs": set(SUBS), "Pubs": set(PUBS), "Downs": set(DOWNS), "None": NONE, "PubAfter": pub_after(), "WithReplayer": True, "RCap": 0}
    tag = re.sub(r"[^A-Za-z0-9_]", "_", tag)
    d = core.write_mc(ctx, "JT_" + tag, "JoeTrace", consts, spec="Spec", invariants=invariants or TRACE_INVS, constraint="HighWater", postcondition="Accepted")
    env = {"TRACE": trace, "JAVA_TOOL_OPTIONS": "-Dtlc2.tool.queue.IStateQueue=StateDeque"}
    r = core.run_tlc(ctx, d, "JT_" + tag, workers=1, timeout=1800, env=env)
    if r.violated is None:
        return True, None, r
    txt = open(r.stdout_path, errors="replace").read()
    i = txt.find("REJECTED")
    m = re.search(r"Error: Invariant (\w+) is violated", txt)
    if m:
        k = re.findall(r"/\\ l = (\d+)", txt)
        rej = "Invariant %s is violated in the state reached before line %s" % (m.group(1), k[-1] if k else "?")
        if k:
            rej += "  REJECTED at line %s" % k[-1]
    elif i >= 0:
        j = txt.find("Error:", i)
        rej = " ".join(txt[max(0, i - 4):j if j > 0 else i + 2000].split())[:2000]
    else:
        i = txt.find("Error: Invariant")
        rej = " ".join(txt[i:i + 3000].split())
    return False, rej, r


MC_SAFETY = ["NoPanic", "NoLateCall", "Delivery", "Complete", "Flushed", "ProgramOrder", "Resume", "NoDuplicates", "PutError",
             "ShutdownValues", "AtMostOneCloser"]


def fn(d):
    return Raw("(" + " @@ ".join("%s :> %s" % (core.tla_value(k), v if isinstance(v, Raw) else core.tla_value(v)) for k, v in d.items()) + ")")


def tlc_joe_mc(ctx, name, *, subs, pubs, downs, sub_topics, pub_topics, last_ids, pub_after, faults, cancel_subs, ctx_downs=(),
               with_replayer=True, liveness=False, timeout=3000, safety=MC_SAFETY, rcap=0):
    consts = {"Subs": set(subs), "Pubs": set(pubs), "Downs": set(downs), "None": NONE,
              "PubAfter": fn({p: pub_after.get(p, NONE) for p in pubs}), "WithReplayer": with_replayer, "RCap": rcap,
              "SubTopics": fn({s: set(sub_topics[s]) for s in subs}), "PubTopics": fn({p: set(pub_topics[p]) for p in pubs}),
              "LastIDs": fn({s: last_ids.get(s, NONE) for s in subs}), "FaultBudget": faults,
              "CancelSubs": set(cancel_subs), "CtxDowns": set(ctx_downs)}
    d = core.write_mc(ctx, name, "JoeMC", consts, spec="FairSpec" if liveness else "MCSpec", invariants=list(safety),
                      properties=(["AllReturn", "AfterPanic"] if liveness else ["AfterPanic"]), deadlock=True)
    return core.run_tlc(ctx, d, name, timeout=timeout)


S2 = dict(subs=["s1", "s2"], sub_topics={"s1": ["a"], "s2": ["a", "b"]})
P2 = dict(pubs=["p1", "p2"], pub_topics={"p1": ["a", "b"], "p2": ["b"]})

MC_CONFIGS = {
    # name: (kwargs, what it explores)
    "order": (dict(**S2, **P2, downs=["k1"], last_ids={}, pub_after={"p2": "p1"}, cancel_subs=["s1", "s2"], faults=0),
              "2 subscribers (topics {a} / {a,b}), one publisher's 2 messages ({a,b} then {b}), 1 Shutdown, any cancellations, no faults"),
    "resume": (dict(**S2, pubs=["p1", "p2", "p3"], pub_topics={"p1": ["a", "b"], "p2": ["b"], "p3": ["a"]}, downs=[],
                    last_ids={"s1": "p1", "s2": "p2"}, pub_after={"p2": "p1"}, cancel_subs=["s1"], faults=0),
               "2 resuming subscribers presenting the IDs of p1 / p2 racing 3 publishes (p1 then p2 by one publisher, p3 concurrently)"),
    "resume-evicting": (dict(**S2, pubs=["p1", "p2", "p3"], pub_topics={"p1": ["a", "b"], "p2": ["a", "b"], "p3": ["a"]}, downs=[],
                             last_ids={"s1": "p1", "s2": "p2"}, pub_after={"p2": "p1", "p3": "p2"}, cancel_subs=[], faults=0, rcap=2),
                        "as 'resume' with a replayer that holds only the last 2 messages (a presented ID may have been evicted by the time of the replay)"),
    "faults": (dict(**S2, **P2, downs=[], last_ids={"s2": "p1"}, pub_after={"p2": "p1"}, cancel_subs=["s1", "s2"], faults=1),
               "as 'order' without Shutdown, plus one failing Send / Flush / Put / Replay (error or panic) anywhere, racing cancellations"),
    "shutdown": (dict(subs=["s1", "s2"], sub_topics={"s1": ["a"], "s2": ["a"]}, pubs=["p1"], pub_topics={"p1": ["a"]}, downs=["k1", "k2"],
                      last_ids={}, pub_after={}, cancel_subs=["s1"], faults=0, liveness=True),
                 "2 subscribers, 1 publish, 2 concurrent Shutdown calls; safety + AllReturn under weak fairness"),
    "shutdown2": (dict(subs=["s1"], sub_topics={"s1": ["a"]}, pubs=["p1", "p2"], pub_topics={"p1": ["a"], "p2": ["a"]}, downs=["k1", "k2"],
                       last_ids={"s1": "p1"}, pub_after={}, cancel_subs=["s1"], ctx_downs=["k2"], faults=1, liveness=True),
                  "1 resuming subscriber, 2 publishers, 2 Shutdown calls (one with a done context), one fault; safety + AllReturn"),
    "big-faults": (dict(**S2, **P2, downs=["k1"], last_ids={"s2": "p1"}, pub_after={}, cancel_subs=["s1", "s2"], faults=1),
                   "2 subscribers, 2 concurrent publishers, 1 Shutdown, one fault (8.9M states)"),
    "big-liveness": (dict(**S2, **P2, downs=["k1"], last_ids={"s2": "p1"}, pub_after={}, cancel_subs=["s1", "s2"], faults=0, liveness=True),
                     "2 subscribers, 2 concurrent publishers, 1 Shutdown; AllReturn under weak fairness (0.9M states)"),
    "two-shutdowns": (dict(**S2, **P2, downs=["k1", "k2"], last_ids={"s2": "p1"}, pub_after={}, cancel_subs=["s1", "s2"], faults=1),
                      "2 subscribers, 2 publishers, 2 Shutdown calls, one fault (68M states)"),
}


def model_check(ctx, names, agg):
    for n in names:
        kw, what = MC_CONFIGS[n]
        r = tlc_joe_mc(ctx, "JoeMC_" + n.replace("-", "_"), **kw)
        if r.violated:
            # a counterexample on the model alone is never a verdict about the code (DESIGN 2.5): the model or a property is wrong
            raise core.ToolFailure("Joe.tla violates %s in configuration %r - the specification needs attention" % (r.violated, n))
        agg["mc"].append({"config": n, "explores": what, "distinct_states": r.distinct, "liveness": bool(kw.get("liveness"))})


def trace_check(ctx, focus, total, tag, agg, race=False, chunk=250, runner=None, base=None):
    traces = collect_traces(ctx, focus, total, tag, agg, chunk=chunk, race=race, runner=runner, base=base)
    for j, cut in enumerate(agg.pop("cut_traces", [])):
        ok, rej, r = validate_joe_trace(ctx, cut, "%scut%d" % (tag, j), invariants=[i for i in TRACE_INVS if i != "AllReturned"])
        if not ok:
            keep = os.path.join(core.OUT, "joe-trace-%s-%s-s%d-cut%d.ndjson" % (ctx.pid, tag, ctx.seed, j))
            shutil.copy(cut, keep)
            seed = json.loads(open(cut).readline()).get("seed")
            core.report(ctx, "JoeTrace.tla rejects what the real Joe did in scenario %s (%s, recording cut at the deadline): %s" % (seed, focus, (rej or "")[:700]),
                        {"trace_spec": "JoeTrace", "trace": keep, "scenario_seed": seed, "focus": focus, "rejected": rej}, "joe:trace:" + classify(rej))
    for i, tr in enumerate(traces):
        nev = sum(1 for _ in open(tr))
        nsc = sum(1 for l in open(tr) if '"e":"reset"' in l)
        if nev == 0:
            continue
        ok, rej, r = validate_joe_trace(ctx, tr, "%s%d" % (tag, i))
        count_actions(tr, agg)
        agg["events"] += nev
        agg["scenarios"] += nsc
        agg["traces"] += 1
        if i == 0 and not agg["samples"]:
            with open(tr) as f:
                agg["samples"] = [json.loads(next(f)) for _ in range(min(25, nev))]
        if not ok:
            keep = os.path.join(core.OUT, "joe-trace-%s-%s-s%d-%d.ndjson" % (ctx.pid, tag, ctx.seed, i))
            # keep only the scenario that was rejected
            m = re.search(r"REJECTED at line\D+(\d+)", rej or "")
            lines = open(tr).read().splitlines()
            if m:
                k = int(m.group(1)) - 1
                a = max(j for j in range(0, min(k, len(lines) - 1) + 1) if '"e":"reset"' in lines[j])
                b = next((j for j in range(k + 1, len(lines)) if '"e":"reset"' in lines[j]), len(lines))
                sc = lines[a:b]
            else:
                sc = lines
            with open(keep, "w") as f:
                f.write("\n".join(sc) + "\n")
            seed = json.loads(sc[0]).get("seed") if sc else None
            core.report(ctx, "JoeTrace.tla rejects what the real Joe did in scenario %s (%s): %s" % (seed, focus, (rej or "")[:700]),
                        {"trace_spec": "JoeTrace", "trace": keep, "scenario_seed": seed, "focus": focus, "rejected": rej}, "joe:trace:" + classify(rej))
            # validate the scenarios after the rejected one as well (a handful of rejections is verdict enough)
            agg["rejections"] = agg.get("rejections", 0) + 1
            if m and b < len(lines) and agg["rejections"] < 6:
                rest = os.path.join(ctx.work, "joe-%s-rest-%d.ndjson" % (tag, agg["rejections"]))
                with open(rest, "w") as f:
                    f.write("\n".join(lines[b:]) + "\n")
                traces.append(rest)


def count_actions(trace, agg):
    """How often each action of Joe.tla (with its outcome argument) was taken by the real code in the validated traces:
    an action that never shows was not exercised (vacuity check, reported in the evidence)."""
    ac = agg.setdefault("actions", {})
    with open(trace) as f:
        for line in f:
            try:
                e = json.loads(line)
            except ValueError:
                continue
            k = e.get("e")
            if k in ("reset", None):
                continue
            if "v" in e:
                k += "=" + str(e["v"])
            elif "ok" in e:
                k += "=" + ("ok" if e["ok"] else "fail")
            elif "present" in e:
                k += "=" + ("present" if e["present"] else "absent")
            ac[k] = ac.get(k, 0) + 1


ALL_ACTIONS = ["call.sub", "sub.s1.closed", "sub.s2.done=nil", "sub.s2.done=err", "sub.s3.done=nil", "sub.s3.done=err", "sub.s4.done=nil", "sub.s4.done=err",
               "sub.s2.ctx", "cancel", "ret.sub=nil", "ret.sub=err", "ret.sub=closed", "loop.select", "loop.sub", "rbegin", "send=ok", "send=fail",
               "flush=ok", "flush=fail", "rend=nil", "rend=err", "rend=replayerr", "rend=panic", "loop.subfail=err", "loop.register", "loop.msg",
               "put=ok", "put=err", "put=panic", "loop.reply.err", "loop.reply", "loop.fail=err", "loop.remove=present", "loop.remove=absent",
               "loop.unsub", "loop.done", "loop.exit", "call.pub", "pub.closed", "ret.pub=nil", "ret.pub=puterr", "ret.pub=closed", "call.down",
               "down.pre", "down.ok", "down.recovered", "down.closed", "down.ctx", "ret.down=nil", "ret.down=closed", "ret.down=ctx"]


def classify(rej):
    m = re.search(r'e \|-> "([a-z0-9.]+)"', rej or "")
    if m:
        return "event:" + m.group(1)
    m = re.search(r"Invariant (\w+)", rej or "")
    return "invariant:" + (m.group(1) if m else "?")


# --------------------------------------------------------------------------- direction A: TLC behaviours steered through the real Joe

A3 = dict(subs=["s0", "s1", "s2"], sub_topics={"s0": ["a"], "s1": ["a"], "s2": ["a"]})
STEER_CONFIGS = {
    # name: (JoeMC constants, DownAfter, replayers to run the behaviours with, what it explores)
    "fan3": (dict(**A3, pubs=["p0k0", "p0k1"], pub_topics={"p0k0": ["a"], "p0k1": ["a"]}, downs=[], last_ids={}, pub_after={"p0k1": "p0k0"},
                  cancel_subs=["s0", "s1", "s2"], faults=1), 0, ["none", "finite-manual"],
             "3 subscribers of one topic, one publisher's 2 messages, one failing Send / Flush (or Put / Replay) anywhere, any cancellations"),
    "fan3-2f": (dict(**A3, pubs=["p0k0", "p1k0"], pub_topics={"p0k0": ["a"], "p1k0": ["a"]}, downs=[], last_ids={}, pub_after={},
                     cancel_subs=["s1"], faults=2, with_replayer=False), 0, ["none"],
                "3 subscribers of one topic, 2 concurrent publishers, two failing Send / Flush calls (possibly in one hand-out)"),
    "topics": (dict(subs=["s0", "s1", "s2"], sub_topics={"s0": ["a", "b"], "s1": ["b"], "s2": []}, pubs=["p0k0", "p0k1", "p1k0"],
                    pub_topics={"p0k0": ["a", "b"], "p0k1": ["b"], "p1k0": ["c"]}, downs=["k1"], last_ids={}, pub_after={"p0k1": "p0k0"},
                    cancel_subs=["s0"], faults=0), 2, ["none", "valid-auto"],
               "topic sets that overlap twice, once, not at all, and an empty topic list; a Shutdown after 2 messages"),
    "resume": (dict(subs=["s0", "s1", "s2"], sub_topics={"s0": ["a"], "s1": ["a", "b"], "s2": ["b"]}, pubs=["h0", "h1", "h2", "p0k0"],
                    pub_topics={"h0": ["a", "b"], "h1": ["b"], "h2": ["a", "b"], "p0k0": ["a", "b"]}, downs=[], last_ids={"s1": "h0", "s2": "h1", "s0": "h2"},
                    pub_after={"h1": "h0", "h2": "h1"}, cancel_subs=["s1"], faults=0), 0, ["finite-manual", "finite-auto", "valid-manual", "valid-auto"],
               "3 resuming subscribers (presenting an old ID, the newest ID, an ID not yet issued) racing one publisher's 3 messages and a concurrent one"),
    "resume-small": (dict(subs=["s0", "s1"], sub_topics={"s0": ["a"], "s1": ["a"]}, pubs=["h0", "h1", "h2", "h3"],
                          pub_topics={"h0": ["a"], "h1": ["a"], "h2": ["a"], "h3": ["a"]}, downs=[], last_ids={"s0": "h0", "s1": "h1"},
                          pub_after={"h1": "h0", "h2": "h1", "h3": "h2"}, cancel_subs=[], faults=1, rcap=2), 0, ["finite-manual"],
                     "a replayer of 2 slots, 4 messages: the presented ID may be evicted when the replay starts; one fault"),
    "resume-wrap": (dict(subs=["s0", "s1"], sub_topics={"s0": ["a"], "s1": ["a"]}, pubs=["h0", "h1", "h2", "h3", "h4"],
                         pub_topics={p: ["a"] for p in ["h0", "h1", "h2", "h3", "h4"]}, downs=[], last_ids={"s0": "h2", "s1": "h1"},
                         pub_after={"h1": "h0", "h2": "h1", "h3": "h2", "h4": "h3"}, cancel_subs=[], faults=1, rcap=4, sub_after=5, fault_kinds=("send",), fault_odds=1), 0, ["finite-manual"],
                    "a replayer of 4 slots after 5 messages (the ring has wrapped: a replay walks over the physical end of the buffer), one failing replayed or live Send"),
    "resume-wrap-evicted": (dict(subs=["s0", "s1"], sub_topics={"s0": ["a"], "s1": ["a"]}, pubs=["h0", "h1", "h2", "h3", "h4"],
                                 pub_topics={p: ["a"] for p in ["h0", "h1", "h2", "h3", "h4"]}, downs=[], last_ids={"s0": "h0", "s1": "h3"},
                                 pub_after={"h1": "h0", "h2": "h1", "h3": "h2", "h4": "h3"}, cancel_subs=[], faults=0, rcap=4, sub_after=5), 0, ["finite-auto", "finite-manual"],
                            "a replayer of 4 slots after 5 messages (wrapped, the oldest message not in the first slot): one subscriber presents an evicted ID, one a buffered one"),
    "shutdown": (dict(subs=["s0", "s1"], sub_topics={"s0": ["a"], "s1": ["a"]}, pubs=["p0k0", "p1k0"], pub_topics={"p0k0": ["a"], "p1k0": ["a"]},
                      downs=["k1", "k2"], last_ids={}, pub_after={}, cancel_subs=["s0"], ctx_downs=["k2"], faults=1), 1, ["none", "finite-manual"],
                 "2 subscribers, 2 concurrent publishers, 2 Shutdown calls (one with a done context) after the first message, one fault, a cancellation"),
    "shutdown-early": (dict(subs=["s0", "s1"], sub_topics={"s0": ["a"], "s1": ["a"]}, pubs=["p0k0"], pub_topics={"p0k0": ["a"]},
                            downs=["k1", "k2"], last_ids={}, pub_after={}, cancel_subs=["s0", "s1"], faults=0), 0, ["none"],
                       "Shutdown racing the very first calls (before / while Joe is initialised), 2 concurrent Shutdown calls"),
    "replayer-faults": (dict(subs=["s0", "s1"], sub_topics={"s0": ["a"], "s1": ["a"]}, pubs=["h0", "h1", "p0k0"],
                             pub_topics={"h0": ["a"], "h1": ["a"], "p0k0": ["a"]}, downs=[], last_ids={"s0": "h0", "s1": "h0"},
                             pub_after={"h1": "h0"}, cancel_subs=["s0"], faults=2), 0, ["finite-manual", "valid-manual"],
                        "2 resuming subscribers, two faults among Put error / Put panic / Replay error / Replay panic / failing replayed Send or Flush"),
}


STEER_CONFIGS.update({
    # small configurations explored exhaustively (breadth-first under a VIEW): one behaviour per leaf of TLC's search tree, which
    # together pass through every reachable state (View0) / every reachable state and step into it (View1) of the configuration
    "tiny": (dict(subs=["s0"], sub_topics={"s0": ["a"]}, pubs=["p0k0"], pub_topics={"p0k0": ["a"]}, downs=[], last_ids={}, pub_after={},
                  cancel_subs=["s0"], faults=0, with_replayer=False), 0, ["none"],
             "1 subscriber, 1 publish, a cancellation: every transition of the model"),
    "tiny-down": (dict(subs=["s0"], sub_topics={"s0": ["a"]}, pubs=["p0k0"], pub_topics={"p0k0": ["a"]}, downs=["k1"], last_ids={}, pub_after={},
                       cancel_subs=["s0"], faults=0, with_replayer=False), 0, ["none"],
                  "1 subscriber, 1 publish, 1 Shutdown, a cancellation: every transition of the model"),
    "pair-fault": (dict(subs=["s0", "s1"], sub_topics={"s0": ["a"], "s1": ["a"]}, pubs=["p0k0"], pub_topics={"p0k0": ["a"]}, downs=["k1"], last_ids={},
                        pub_after={}, cancel_subs=["s0"], faults=1), 0, ["finite-manual"],
                   "2 subscribers, 1 publish, 1 Shutdown, a cancellation, one fault anywhere (Send / Flush / Put / Replay): every state of the model"),
})


def steer_consts(name):
    kw, down_after, _, _ = STEER_CONFIGS[name]
    subs, pubs, downs = kw["subs"], kw["pubs"], kw["downs"]
    return {"Subs": set(subs), "Pubs": set(pubs), "Downs": set(downs), "None": NONE,
            "PubAfter": fn({p: kw["pub_after"].get(p, NONE) for p in pubs}), "WithReplayer": kw.get("with_replayer", True), "RCap": kw.get("rcap", 0),
            "SubTopics": fn({s: set(kw["sub_topics"][s]) for s in subs}), "PubTopics": fn({p: set(kw["pub_topics"][p]) for p in pubs}),
            "LastIDs": fn({s: kw["last_ids"].get(s, NONE) for s in subs}), "FaultBudget": kw["faults"],
            "CancelSubs": set(kw["cancel_subs"]), "CtxDowns": set(kw.get("ctx_downs", ())), "DownAfter": down_after, "SubAfter": kw.get("sub_after", 0),
            "FaultKinds": set(kw.get("fault_kinds", ("send", "flush", "put", "rend"))), "FaultOdds": kw.get("fault_odds", 4)}


def steer_exhaustive(ctx, name, view):
    """Every reachable state (View0) or state-and-last-step (View1) of a small configuration: TLC searches breadth-first under the VIEW
    (one shortest history per view value) and prints every history; the leaves of that tree are the behaviours to replay (every other
    history is a prefix of one of them).  Returns (behaviours, distinct view values)."""
    consts = steer_consts(name)
    consts["FaultOdds"] = 1
    mod = "JX_" + re.sub(r"[^A-Za-z0-9_]", "_", name) + "_" + view
    d = core.write_mc(ctx, mod, "JoeSched", consts, init="SInit", nxt="SNext", invariants=["ExportAll"], view=view,
                      extra_defs="ExportAll == hist # <<>> => PrintT(ToJson(hist))")
    r = core.run_tlc(ctx, d, mod, workers=1, timeout=3000)
    if r.violated:
        raise core.ToolFailure("JoeSched.tla: unexpected %s in configuration %r" % (r.violated, name))
    hs = [tuple(tuple(x) for x in h) for h in core.tlc_json_lines(r.stdout_path)]
    prefixes = {h[:-1] for h in hs}
    leaves = [[list(x) for x in h] for h in hs if h not in prefixes]
    return leaves, r.distinct


def steer_behaviours(ctx, name, num, seed):
    """Random behaviours of JoeMC (via JoeSched.tla, tlc -simulate) for one configuration -> list of step lists."""
    consts = steer_consts(name)
    mod = "JS_" + re.sub(r"[^A-Za-z0-9_]", "_", name)
    d = core.write_mc(ctx, mod, "JoeSched", consts, init="SInit", nxt="SNext", invariants=["Export"])
    r = core.run_tlc(ctx, d, mod, workers=1, simulate="num=%d" % num, depth=400, seed=seed, timeout=600)
    if r.violated:
        raise core.ToolFailure("JoeSched.tla: unexpected %s in configuration %r" % (r.violated, name))
    seen, out = set(), []
    for steps in core.tlc_json_lines(r.stdout_path):
        key = json.dumps(steps)
        if key not in seen:
            seen.add(key)
            out.append(steps)
    return out


def steer_cases(ctx, names, num, tag):
    """Writes the behaviours of the named configurations, each paired with every replayer kind of the configuration, to one ndjson file."""
    path = os.path.join(ctx.work, "joe-steer-%s.cases.ndjson" % tag)
    total = 0
    per = {}
    with open(path, "w") as f:
        for name in names:
            view = None
            if "@" in name:
                name, view = name.split("@")
            kw, _, kinds, what = STEER_CONFIGS[name]
            if view:
                beh, nview = steer_exhaustive(ctx, name, view)
                per[name + "@" + view] = {"behaviours": len(beh), "replayers": kinds, "explores": what, "exhaustive": True,
                                          "covers": ("every reachable state" if view == "View0" else "every reachable state and the step into it") +
                                                    " of the configuration (%d)" % nview}
            else:
                beh = steer_behaviours(ctx, name, num, ctx.seed * 7919 + len(name))
                per[name] = {"behaviours": len(beh), "replayers": kinds, "explores": what}
            for i, steps in enumerate(beh):
                kind = kinds[i % len(kinds)]
                if not kw.get("with_replayer", True):
                    kind = "none"
                cfg = {"name": name, "replayer": kind, "rcap": kw.get("rcap", 0),
                       "subs": {s: {"topics": kw["sub_topics"][s], "lid": kw["last_ids"].get(s, "")} for s in kw["subs"]},
                       "pubs": {p: {"topics": kw["pub_topics"][p], "after": kw["pub_after"].get(p, "")} for p in kw["pubs"]},
                       "downs": {k: (k in kw.get("ctx_downs", ())) for k in kw["downs"]}}
                f.write(json.dumps({"cfg": cfg, "steps": steps}) + "\n")
                total += 1
    return path, total, per


def run_steered(ctx, cases, n, base, tag, race=False):
    """Runs behaviours base .. base+n-1 of the cases file against the real Joe (same contract as run_scenarios)."""
    binp = core.build_harness(ctx, race)
    trace = os.path.join(ctx.work, "joe-%s-%d.ndjson" % (tag, base))
    errp = trace + ".err"
    statp = trace + ".stats"
    with open(errp, "w") as fe:
        try:
            p = subprocess.run([binp, "joe-steer", "-in", cases, "-from", str(base), "-n", str(n), "-o", trace, "-stats", statp], stderr=fe,
                               stdout=subprocess.DEVNULL, timeout=1800, env=dict(core.GOENV, VERIF_SEED=str(ctx.seed)))
            rc = p.returncode
        except subprocess.TimeoutExpired:
            raise core.ToolFailure("joe-steer driver timed out (base %d)" % base)
    err = open(errp, errors="replace").read()
    last = re.findall(r"^SCENARIO (\d+)$", err, re.M)
    last_seed = int(last[-1]) if last else None
    if rc == 0:
        return trace, None, None
    if rc == 3:
        return trace, None, dict(seed=last_seed, focus="steer", dump=err[err.find("BLOCKED"):][:6000])
    m = re.search(r"^(panic: .*|fatal error: .*)$", err, re.M)
    if m:
        i = err.find(m.group(1))
        return trace, dict(seed=last_seed, focus="steer", panic=m.group(1), stack=err[i:i + 3000]), None
    raise core.ToolFailure("joe-steer driver failed rc=%d: %s" % (rc, err[-2000:]))


def steer_check(ctx, names, num, tag, agg):
    """Direction A: TLC's behaviours of the named configurations, steered through the real Joe, what it did validated by JoeTrace.tla."""
    if agg.get("stop"):
        return
    cases, total, per = steer_cases(ctx, names, num, tag)
    agg.setdefault("steer", {"configs": {}, "behaviours": 0, "stats": {}})
    agg["steer"]["configs"].update(per)
    agg["steer"]["behaviours"] += total
    trace_check(ctx, "steer", total, "steer-" + tag, agg, chunk=400, base=0,
                runner=lambda n, b, tg: run_steered(ctx, cases, n, b, tg))
    for f in os.listdir(ctx.work):
        if f.startswith("joe-steer-" + tag) and f.endswith(".stats"):
            try:
                st = core.read_json(os.path.join(ctx.work, f))
            except Exception:
                continue
            for k, v in st.items():
                agg["steer"]["stats"][k] = agg["steer"]["stats"].get(k, 0) + v


def new_agg():
    return dict(crashes=0, blocked=[], scenarios=0, events=0, traces=0, samples=[], notes={}, mc=[])


def joe_evidence(ctx, agg, rule, assumptions):
    cov = {
        "states": ctx.states, "transitions": ctx.transitions,
        "traces_validated_against_impl": agg["scenarios"],
        "samples": agg["samples"][:25],
        "evaluations": agg["events"], "distinct_nontrivial": agg["scenarios"],
        "rule": rule, "exhaustive": False,
        "model_checking": agg["mc"], "trace_events_validated": agg["events"], "process_crashes": agg["crashes"],
        "steered_behaviours": agg.get("steer", {}),
        "actions_taken_by_the_real_code": dict(sorted(agg.get("actions", {}).items())),
        "actions_never_taken": [a for a in ALL_ACTIONS if a not in agg.get("actions", {})],
    }
    core.write_evidence(ctx, "model_checking", cov, [
        "the model checking is exhaustive for the stated small configurations only; the real Joe is observed under seeded schedules (GOMAXPROCS 1/2/16, random yields in every hook), which sample the interleavings",
        "event order in a trace agrees with happens-before by the hook discipline (release before, acquire after; rendezvous logged by the receiver)",
        "subscribers' Send / Flush return",
        "steered_behaviours: behaviours of JoeMC.tla drawn by `tlc -simulate` (JoeSched.tla) are replayed against the real Joe with every hook point as a gate; "
        "steering is best effort (stats.Exact = behaviours the real code followed step by step in the behaviour's order to their end; Stalled = behaviours that fell back to free "
        "running; the rest took other steps somewhere - mostly behaviours in which Joe still receives after the hook in front of close(j.done), which the real code only "
        "does under another order of the same events) and never a "
        "verdict by itself: what the real Joe did is validated by JoeTrace.tla like every other trace",
    ] + list(assumptions))


COMMON_RULE = ("seeded scenarios against a real Joe: 0-3 publishes of pre-history, 1-3 subscribers (topics {''},{t},{'',t},{u},{t,v}; resuming from an old / the newest / a never "
               "issued ID; failing k-th Send or Flush, optionally cancelling its own context as net/http does; cancelled at random), 1-3 publisher goroutines x 1-3 "
               "messages, 1-3 Shutdown calls (concurrent, with a done context, before initialisation), calls after Shutdown; replayer none / Finite / Valid x manual / "
               "automatic IDs / scripted (Put error, Put panic, Replay error, Replay panic); every hook point and driver call is one event, every event one action of "
               "Joe.tla; evaluations = events, distinct_nontrivial = scenarios")


def run_C03(ctx):
    agg = new_agg()
    model_check(ctx, ["order"] if ctx.quick else ["order", "big-faults"], agg)
    trace_check(ctx, "mix", 500 if ctx.quick else 6000, "mix", agg)
    steer_check(ctx, ["fan3", "topics", "fan3-2f", "tiny@View1", "tiny-down@View0"] + ([] if ctx.quick else ["tiny-down@View1"]), 150 if ctx.quick else 2500, "c03", agg)
    joe_evidence(ctx, agg, "Delivery / Complete / ProgramOrder / Flushed / BeforeCancel (guard of RetSub) checked by TLC over all interleavings of the configurations listed; " + COMMON_RULE, [])


def run_C04(ctx):
    agg = new_agg()
    model_check(ctx, ["resume", "resume-evicting"] if ctx.quick else ["resume", "resume-evicting", "big-faults"], agg)
    trace_check(ctx, "resume", 500 if ctx.quick else 6000, "resume", agg)
    steer_check(ctx, ["resume", "resume-small", "resume-wrap", "resume-wrap-evicted"], 150 if ctx.quick else 3000, "c04", agg)
    joe_evidence(ctx, agg, "Resume / NoDuplicates and the replay guards (a replayed Send must be the next missed event) over all interleavings of Subscribe with concurrent "
                 "Publish calls; traces with the real FiniteReplayer / ValidReplayer behind a recording wrapper, both ID modes; " + COMMON_RULE,
                 ["replayer capacity / TTL large enough to hold everything published in a scenario"])


def run_C06(ctx):
    agg = new_agg()
    model_check(ctx, ["faults"] if ctx.quick else ["faults", "big-faults", "two-shutdowns"], agg)
    trace_check(ctx, "faults", 600 if ctx.quick else 8000, "faults", agg)
    steer_check(ctx, ["fan3-2f", "replayer-faults", "shutdown", "resume-wrap", "tiny-down@View1"] + ([] if ctx.quick else ["pair-fault@View0"]), 120 if ctx.quick else 2500, "c06", agg)
    if not ctx.quick:
        trace_check(ctx, "faults", 1500, "faults-race", agg, race=True)
    joe_evidence(ctx, agg, "NoPanic / NoLateCall / ErrReturned (guard of RetSub) over all interleavings incl. a failure racing the cancellation of the same subscriber; scenarios run in "
                 "child processes: a Go panic in Joe's goroutine is a violation; " + COMMON_RULE,
                 ["Subscribe returns its own error whenever one was reported to it (the strong reading of the property's last sentence)"])


def run_C07(ctx):
    agg = new_agg()
    model_check(ctx, ["shutdown"] if ctx.quick else ["shutdown", "shutdown2", "big-liveness", "two-shutdowns"], agg)
    trace_check(ctx, "shutdown", 500 if ctx.quick else 6000, "shutdown", agg)
    # resumed subscriptions whose replay fails part-way, replayers of both kinds: whatever they leave behind, every later call returns
    if not agg.get("stop"):
        trace_check(ctx, "resume", 250 if ctx.quick else 3000, "resume", agg)
    steer_check(ctx, ["shutdown", "shutdown-early", "topics", "tiny-down@View0"] + ([] if ctx.quick else ["tiny-down@View1"]), 150 if ctx.quick else 2500, "c07", agg)
    # calls racing the provider's first-use initialisation: one scenario = 150 trials on fresh providers
    if not agg.get("stop"):
        trace_check(ctx, "firstuse", 6 if ctx.quick else 80, "firstuse", agg, chunk=20)
    joe_evidence(ctx, agg, "AllReturn (liveness, weak fairness of every process step), deadlock freedom, ShutdownValues / AtMostOneCloser by TLC; in traces AllReturned is evaluated at the end of "
                 "every scenario and a call that has not returned after 10 s in 3 of 3 runs is a violation; " + COMMON_RULE,
                 ["a timeout is a verdict only when reproduced in two fresh runs of the same scenario"])


def run_C17(ctx):
    agg = new_agg()
    model_check(ctx, ["faults"] if ctx.quick else ["faults", "big-faults"], agg)
    trace_check(ctx, "faults", 600 if ctx.quick else 8000, "isolation", agg)
    steer_check(ctx, ["fan3", "replayer-faults", "fan3-2f", "resume-wrap"] + ([] if ctx.quick else ["pair-fault@View0"]), 120 if ctx.quick else 2500, "c17", agg)
    joe_evidence(ctx, agg, "Delivery / Complete for every subscriber that has not itself failed, PutError, AfterPanic over all interleavings with one fault anywhere; traces with a scripted "
                 "replayer that returns an error or panics on its k-th Put / Replay and subscribers of which a seeded subset fails; " + COMMON_RULE, [])
