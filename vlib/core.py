"""Shared machinery of bin/vcheck: scratch directories, TLC runs, harness build,
evidence, known findings, verdicts."""
import json
import os
import re
import shutil
import subprocess
import sys
import time

ROOT = os.path.dirname(os.path.dirname(os.path.abspath(__file__)))
SPECS = os.path.join(ROOT, "specs")
HARNESS = os.path.join(ROOT, "harness")
WORK = os.path.join(ROOT, "work")
OUT = os.path.join(ROOT, "out")
EVID = os.environ.get("VERIF_EVIDENCE_DIR") or os.path.join(ROOT, "evidence")
REPO = os.environ.get("VERIF_REPO", "/repo")
NCPU = os.cpu_count() or 4

GOENV = dict(os.environ, GOFLAGS="-mod=mod", GOPROXY="off", GOSUMDB="off", GOTOOLCHAIN="local",
             CGO_ENABLED=os.environ.get("CGO_ENABLED", "1"))


class ToolFailure(Exception):
    """Anything that is not a verdict about the code: exit 2."""


def log(*a):
    print(*a, file=sys.stderr, flush=True)


class Ctx:
    def __init__(self, pid, tier, seed):
        self.pid = pid
        self.tier = tier
        self.seed = seed
        self.t0 = time.time()
        self.work = os.path.join(WORK, "%s-%s-%d" % (pid, tier, os.getpid()))
        shutil.rmtree(self.work, ignore_errors=True)
        os.makedirs(self.work)
        os.makedirs(OUT, exist_ok=True)
        os.makedirs(EVID, exist_ok=True)
        self.violations = []      # (what, replay_path)
        self.known_hits = []      # known findings seen
        self.states = 0
        self.transitions = 0
        self.tlc_runs = []
        self.coverage = {}
        self.assumptions = []
        self.nreplay = 0

    @property
    def quick(self):
        return self.tier == "quick"

    def cleanup(self):
        shutil.rmtree(self.work, ignore_errors=True)

    def replay_path(self, tag=""):
        self.nreplay += 1
        return os.path.join(OUT, "replay-%s-%s-s%d-%d%s.json" % (self.pid, self.tier, self.seed, self.nreplay, tag))


# --------------------------------------------------------------------------- TLC

_cfg_val = lambda v: v if isinstance(v, str) else json.dumps(v)


def tla_value(v):
    """Python value -> TLA+ expression text."""
    if isinstance(v, bool):
        return "TRUE" if v else "FALSE"
    if isinstance(v, int):
        return str(v)
    if isinstance(v, str):
        return json.dumps(v)
    if isinstance(v, (set, frozenset)):
        return "{" + ", ".join(sorted(tla_value(x) for x in v)) + "}"
    if isinstance(v, (list, tuple)):
        return "<<" + ", ".join(tla_value(x) for x in v) + ">>"
    if isinstance(v, dict):
        return "[" + ", ".join("%s |-> %s" % (k, tla_value(x)) for k, x in v.items()) + "]"
    raise TypeError(v)


class Raw(str):
    """TLA+ expression given verbatim."""


def write_mc(ctx, name, base, consts, *, spec="Spec", init=None, nxt=None, invariants=(), properties=(),
             constraint=None, action_constraint=None, view=None, postcondition=None, deadlock=False,
             extra_defs="", symmetry=None):
    """Writes MC module `name` (EXTENDS base) and its cfg into a fresh scratch dir holding copies of all specs.
    Constants are bound through definitions in the MC module (so any TLA+ value can be used)."""
    d = os.path.join(ctx.work, name)
    os.makedirs(d, exist_ok=True)
    for f in os.listdir(SPECS):
        if f.endswith(".tla"):
            shutil.copy(os.path.join(SPECS, f), d)
    lines = ["---- MODULE %s ----" % name, "EXTENDS %s" % base]
    cfg = []
    if init:
        cfg += ["INIT " + init, "NEXT " + nxt]
    else:
        cfg.append("SPECIFICATION " + spec)
    if consts:
        cfg.append("CONSTANTS")
    for k, v in consts.items():
        lines.append("mc_%s == %s" % (k, v if isinstance(v, Raw) else tla_value(v)))
        cfg.append("  %s <- mc_%s" % (k, k))
    if extra_defs:
        lines.append(extra_defs)
    for i in invariants:
        cfg.append("INVARIANT " + i)
    for p in properties:
        cfg.append("PROPERTY " + p)
    if constraint:
        cfg.append("CONSTRAINT " + constraint)
    if action_constraint:
        cfg.append("ACTION_CONSTRAINT " + action_constraint)
    if view:
        cfg.append("VIEW " + view)
    if symmetry:
        cfg.append("SYMMETRY " + symmetry)
    if postcondition:
        cfg.append("POSTCONDITION " + postcondition)
    cfg.append("CHECK_DEADLOCK " + ("TRUE" if deadlock else "FALSE"))
    lines.append("====")
    with open(os.path.join(d, name + ".tla"), "w") as f:
        f.write("\n".join(lines) + "\n")
    with open(os.path.join(d, name + ".cfg"), "w") as f:
        f.write("\n".join(cfg) + "\n")
    return d


_STATS = re.compile(r"(\d+) states generated, (\d+) distinct states found")


class TLCResult:
    def __init__(self):
        self.generated = 0
        self.distinct = 0
        self.ok = False
        self.violated = None      # name of violated invariant/property, if any
        self.stdout_path = None
        self.wall = 0.0
        self.error_text = ""
        self.timed_out = False


def run_tlc(ctx, d, name, *, workers=None, timeout=600, simulate=None, depth=None, seed=None, env=None,
            extra=(), expect_violation=False, keep_stdout=True, heap=None):
    """Runs TLC on module `name` in scratch dir d.  Returns TLCResult.  Raises ToolFailure for anything that is
    neither a clean run nor an invariant/property violation."""
    workers = workers or min(NCPU, 16)
    meta = os.path.join(d, "meta")
    outp = os.path.join(d, name + ".out")
    cmd = ["java", "-XX:+UseParallelGC", "-Xss64m"]
    if heap:
        cmd.append("-Xmx" + heap)
    cmd += ["-cp", "/opt/veriftools/tla/tla2tools.jar:/opt/veriftools/tla/CommunityModules-deps.jar", "tlc2.TLC",
            "-metadir", meta, "-workers", str(workers), "-config", name + ".cfg", "-noGenerateSpecTE"]
    if simulate:
        cmd += ["-simulate", simulate]
        if depth:
            cmd += ["-depth", str(depth)]
    if seed is not None:
        cmd += ["-seed", str(seed)]
    cmd += list(extra) + [name + ".tla"]
    e = dict(os.environ)
    if env:
        e.update(env)
    t0 = time.time()
    r = TLCResult()
    with open(outp, "w") as fo:
        try:
            p = subprocess.run(cmd, cwd=d, stdout=fo, stderr=subprocess.STDOUT, timeout=timeout, env=e)
            rc = p.returncode
        except subprocess.TimeoutExpired:
            rc = -9
            r.timed_out = True
    r.wall = time.time() - t0
    r.stdout_path = outp
    gen = dist = 0
    errlines = []
    violated = None
    with open(outp, errors="replace") as f:
        for line in f:
            if line.startswith('"'):
                continue
            m = _STATS.search(line)
            if m:
                gen, dist = int(m.group(1)), int(m.group(2))
            if line.startswith("Error:") or "Exception" in line:
                errlines.append(line.strip())
            m = re.match(r"Error: Invariant (\S+) is violated", line)
            if m:
                violated = m.group(1)
            if "Temporal properties were violated" in line:
                violated = violated or "temporal"
            m = re.match(r"Error: Action property (\S+) is violated", line)
            if m:
                violated = m.group(1)
            if "Deadlock reached" in line:
                violated = violated or "deadlock"
            if re.search(r"Error: .*[Pp]ost.?condition", line):
                violated = violated or "postcondition"
    r.generated, r.distinct = gen, dist
    r.violated = violated
    r.error_text = "\n".join(errlines[:10])
    shutil.rmtree(meta, ignore_errors=True)
    if simulate and r.timed_out:
        r.ok = not errlines
    else:
        r.ok = (rc == 0 and not errlines)
    ctx.tlc_runs.append({"module": name, "generated": gen, "distinct": dist, "wall_s": round(r.wall, 2),
                         "mode": "simulate" if simulate else "exhaustive", "violated": violated})
    if not expect_violation:
        ctx.states += dist
        ctx.transitions += gen
    if r.timed_out and not simulate:
        raise ToolFailure("TLC timed out on %s after %ds" % (name, timeout))
    if not r.ok and violated is None:
        tail = subprocess.run(["tail", "-n", "30", outp], capture_output=True, text=True).stdout
        raise ToolFailure("TLC failed on %s (rc=%s):\n%s" % (name, rc, tail))
    return r


def tlc_json_lines(path):
    """Yields the JSON values TLC printed with PrintT(ToJson(..)) (one JSON string literal per line)."""
    with open(path, errors="replace") as f:
        for line in f:
            if line.startswith('"{') or line.startswith('"['):
                try:
                    yield json.loads(json.loads(line))
                except Exception:
                    raise ToolFailure("unparsable export line in %s: %r" % (path, line[:200]))


def extract_exports(path, outpath, dedupe=False, limit=None):
    """Copies the exported JSON behaviours to an ndjson file; returns the count."""
    n = 0
    seen = set()
    with open(outpath, "w") as fo, open(path, errors="replace") as f:
        for line in f:
            if line.startswith('"{') or line.startswith('"['):
                try:
                    s = json.loads(line)
                except Exception:
                    raise ToolFailure("unparsable export line in %s: %r" % (path, line[:200]))
                if dedupe:
                    h = hash(s)
                    if h in seen:
                        continue
                    seen.add(h)
                fo.write(s)
                fo.write("\n")
                n += 1
                if limit and n >= limit:
                    break
    return n


# --------------------------------------------------------------------------- harness

def repo_fingerprint():
    h = subprocess.run("git -C %s rev-parse HEAD; git -C %s diff HEAD | sha1sum" % (REPO, REPO), shell=True,
                       capture_output=True, text=True).stdout.split()
    return "-".join(x[:12] for x in h if x != "-")


def build_harness(ctx, race=False):
    """Builds the Go driver from /repo's current working tree with the verif tag."""
    binp = os.path.join(ctx.work, "vdriver_race" if race else "vdriver")
    if os.path.exists(binp):
        return binp
    cmd = ["go", "build", "-tags", "verif", "-o", binp]
    if race:
        cmd.insert(2, "-race")
    if REPO != "/repo":
        # an isolated copy of the repository (seeded changes are tried there): same module, other replace target
        alt = os.path.join(ctx.work, "go.alt.mod")
        with open(os.path.join(HARNESS, "go.mod")) as f:
            mod = f.read().replace("=> /repo", "=> " + REPO)
        with open(alt, "w") as f:
            f.write(mod)
        shutil.copy(os.path.join(REPO, "go.sum"), os.path.join(ctx.work, "go.alt.sum"))
        cmd += ["-modfile", alt]
    cmd.append(".")
    if REPO == "/repo":
        shutil.copy(os.path.join(REPO, "go.sum"), os.path.join(HARNESS, "go.sum"))
    p = subprocess.run(cmd, cwd=HARNESS, env=GOENV, capture_output=True, text=True)
    if p.returncode != 0:
        raise ToolFailure("harness build failed:\n" + p.stdout + p.stderr)
    return binp


def run_driver(ctx, args, *, race=False, timeout=900, stdin_path=None, env=None, ok_codes=(0,)):
    binp = build_harness(ctx, race)
    e = dict(GOENV)
    e["VERIF_SEED"] = str(ctx.seed)
    if env:
        e.update(env)
    fin = open(stdin_path) if stdin_path else None
    try:
        p = subprocess.run([binp] + [str(a) for a in args], capture_output=True, text=True, timeout=timeout, env=e, stdin=fin)
    except subprocess.TimeoutExpired:
        raise ToolFailure("driver timed out: %s" % (args,))
    finally:
        if fin:
            fin.close()
    if p.returncode not in ok_codes:
        raise ToolFailure("driver %s failed rc=%d:\n%s\n%s" % (args, p.returncode, p.stdout[-3000:], p.stderr[-6000:]))
    return p


def read_json(path):
    with open(path) as f:
        return json.load(f)


# --------------------------------------------------------------------------- findings, evidence, verdict

def known_findings():
    p = os.path.join(ROOT, "known_findings.json")
    if not os.path.exists(p):
        return {"findings": [], "fixed": []}
    return read_json(p)


def match_known(pid, signature):
    """A violation is a known finding iff a listed (unfixed) finding of this property has a `match` key equal to its signature."""
    for f in known_findings().get("findings", []):
        if f.get("property") == pid and f.get("match") == signature:
            return f
    return None


def report(ctx, what, detail, signature=None):
    """Registers a real-code violation; writes the replay file."""
    k = match_known(ctx.pid, signature) if signature else None
    if k is not None:
        if k["match"] not in [x["match"] for x in ctx.known_hits]:
            ctx.known_hits.append(k)
        return
    ctx.sig_counts = getattr(ctx, "sig_counts", {})
    ctx.sig_counts[signature] = ctx.sig_counts.get(signature, 0) + 1
    if ctx.sig_counts[signature] > 3 or len([v for v in ctx.violations if v[1]]) >= 45:
        ctx.violations.append((what, None))
        return
    path = ctx.replay_path()
    with open(path, "w") as f:
        json.dump({"property": ctx.pid, "what": what, "signature": signature, "detail": detail}, f, indent=1, default=str)
    ctx.violations.append((what, path))


def drift(ctx, what):
    """A disagreement between the real code and a part of the specification that goes beyond the listed properties
    (documented defaults, the default validator): logged and put into the evidence, never a verdict."""
    ctx.drifts = getattr(ctx, "drifts", [])
    if len(ctx.drifts) < 20:
        ctx.drifts.append(what)
    log("SPEC-DRIFT (beyond the listed properties, not a verdict): " + what)


def write_evidence(ctx, level, coverage, assumptions):
    ev = {
        "property_id": ctx.pid,
        "tier": ctx.tier,
        "seed": ctx.seed,
        "level": level,
        "coverage": coverage,
        "assumptions": assumptions,
        "wall_s": round(time.time() - ctx.t0, 2),
        "violations": len(ctx.violations),
        "repo_fingerprint": repo_fingerprint(),
        "tlc_runs": ctx.tlc_runs,
        "beyond_property_disagreements": getattr(ctx, "drifts", []),
    }
    with open(os.path.join(EVID, ctx.pid + ".json"), "w") as f:
        json.dump(ev, f, indent=1, default=str)
        f.write("\n")


def finish(ctx):
    for k in ctx.known_hits:
        print("KNOWN-FINDING: property=%s %s" % (ctx.pid, k.get("what", k["match"])))
    seen = 0
    for what, path in ctx.violations:
        if path is None:
            continue
        seen += 1
        print("VIOLATION property=%s replay=%s" % (ctx.pid, path))
        log("  " + what)
    if ctx.violations:
        log("%s: %d violation(s)" % (ctx.pid, len(ctx.violations)))
        return 1
    return 0


# --------------------------------------------------------------------------- direction B: trace validation

def validate_trace(ctx, name, base, env_var, path, *, invariants=(), timeout=1800, extra_defs="", count_key=None):
    """Validates a recorded ndjson file against trace spec `base` (Spec / HighWater / Accepted convention).
    Returns (accepted, rejected_line_text).  A rejection is a statement about the real code's behaviour."""
    d = write_mc(ctx, name, base, {}, spec="Spec", invariants=list(invariants), constraint="HighWater", postcondition="Accepted",
                 extra_defs=extra_defs)
    env = {env_var: path, "JAVA_TOOL_OPTIONS": "-Dtlc2.tool.queue.IStateQueue=StateDeque"}
    r = run_tlc(ctx, d, name, workers=1, timeout=timeout, env=env, expect_violation=False)
    if r.violated is None:
        return True, None, r
    rej = None
    with open(r.stdout_path, errors="replace") as f:
        txt = f.read()
    i = txt.find("REJECTED")
    if i >= 0:
        j = txt.find("Error:", i)
        rej = " ".join(txt[max(0, i - 4):j if j > 0 else i + 3000].split())[:3000]
    return False, rej or ("violated: %s" % r.violated), r
