"""C08, C09, C18: replayers (Replay.tla) — exhaustive TLC model check of the ring arithmetic against the
abstract log, export of every reachable history with expected observables, replay on the real replayers."""
import json
import os

from . import core
from .core import Raw

PUT_TOPICS = Raw('{{""}, {"t"}, {"", "t"}}')
SUB_TOPICS = Raw('{{""}, {"t", "u"}, {"", "t"}}')

INVS = ["TypeOK", "RingIsLog", "NoStaleSlot", "NoLoss", "AutoIDs", "ReplayOK", "NeverStale"]


def cfg_set(cfgs):
    return Raw("{" + ", ".join(core.tla_value(c) for c in cfgs) + "}")


def finite_cfgs(ns, extra_puts):
    return [dict(kind="finite", n=n, auto=a, ttl=0, gci=0, maxputs=2 * n + extra_puts) for n in ns for a in (False, True)]


def valid_cfgs(ttls, gcis, maxputs):
    return [dict(kind="valid", n=0, auto=a, ttl=t, gci=g, maxputs=maxputs) for t in ttls for g in gcis for a in (False, True)]


def tlc_replay(ctx, name, cfgs, *, max_now, max_bad, asfound=False, export=True, timeout=900, put_topics=PUT_TOPICS,
               simulate=None, depth=None, sub_topics=SUB_TOPICS, gci_changes=()):
    consts = dict(Configs=cfg_set(cfgs), MaxNow=max_now, MaxBad=max_bad, PutTopics=put_topics, SubTopics=sub_topics,
                  AsFound=asfound, GCIChanges=Raw("{" + ", ".join(str(g) for g in gci_changes) + "}"))
    invs = list(INVS) + (["Export"] if export else [])
    d = core.write_mc(ctx, name, "Replay", consts, invariants=invs, view=None if simulate else "View")
    return core.run_tlc(ctx, d, name, timeout=timeout, expect_violation=asfound, simulate=simulate, depth=depth,
                        seed=ctx.seed if simulate else None, workers=4 if simulate else None)


def sensitivity(ctx, cfgs, max_now):
    """The model of findIDInQueue *as found in the pinned tree* must violate ReplayOK (defect D3 at model level):
    shows that the invariant is not vacuous."""
    r = tlc_replay(ctx, "ReplayAsFound", cfgs, max_now=max_now, max_bad=0, asfound=True, export=False, timeout=300)
    if r.violated != "ReplayOK":
        raise core.ToolFailure("sensitivity: the as-found model should violate ReplayOK, TLC reported %r" % r.violated)
    return True


def drive(ctx, cmd, tlc_out, tag, extra=()):
    beh = os.path.join(ctx.work, "beh-%s.ndjson" % tag)
    n = core.extract_exports(tlc_out, beh)
    if n == 0:
        raise core.ToolFailure("TLC exported no behaviours (%s)" % tag)
    resp = os.path.join(ctx.work, "res-%s.json" % tag)
    core.run_driver(ctx, [cmd, "-in", beh, "-out", resp] + list(extra), timeout=1500)
    res = core.read_json(resp)
    os.remove(beh)
    return n, res


def absorb(ctx, res, agg):
    for v in res["violations"]:
        core.report(ctx, v["what"], v["detail"], v["signature"])
    agg["evaluations"] += res["evaluations"]
    agg["distinct"] += res["distinct_nontrivial"]
    agg["behaviours"] += res["behaviours"]
    agg["samples"] += res["samples"][:2]
    for k in ("shape_drift", "shape_agree"):
        agg[k] = agg.get(k, 0) + res["notes"].get(k, 0)
    agg["drift"] += (res.get("drift") or [])[:2]
    agg["n_violations"] += res["n_violations"]


def new_agg():
    return dict(evaluations=0, distinct=0, behaviours=0, samples=[], drift=[], n_violations=0)


def evidence(ctx, agg, rule, extra_assumptions=(), exhaustive=True, extra=None):
    cov = {
        "states": ctx.states, "transitions": ctx.transitions,
        "traces_validated_against_impl": agg["behaviours"],
        "samples": agg["samples"][:4],
        "evaluations": agg["evaluations"], "distinct_nontrivial": agg["distinct"],
        "rule": rule, "exhaustive": exhaustive,
        "ring_shape_agreement": {"agree": agg.get("shape_agree", 0), "drift": agg.get("shape_drift", 0),
                                 "drift_samples": agg["drift"][:3]},
        "real_code_disagreements": agg["n_violations"],
    }
    if extra:
        cov.update(extra)
    core.write_evidence(ctx, "model_checking", cov, [
        "TLC explores Replay.tla exhaustively only within the stated constants; beyond them histories are sampled by simulation",
        "manual IDs are unique within a history; the injected clock is non-decreasing",
        "TLC's state fingerprinting and the Go runtime are trusted",
    ] + list(extra_assumptions))


def run_C08(ctx):
    agg = new_agg()
    obl = apalache_ring(ctx, sensitivity=not ctx.quick)
    if ctx.quick:
        cfgs = finite_cfgs([2, 3, 4], 3)
        sensitivity(ctx, finite_cfgs([3], 1), 0)
        r = tlc_replay(ctx, "ReplayFinite", cfgs, max_now=0, max_bad=1)
        n, res = drive(ctx, "replay", r.stdout_path, "finite")
        absorb(ctx, res, agg)
        # capacities that are no power of two and none of a small ring's: one topic, no rejected puts, filled, wrapped and wrapped again
        r = tlc_replay(ctx, "ReplayFiniteBig", finite_cfgs([17, 20, 33], 3), max_now=0, max_bad=0, put_topics=Raw('{{""}}'), sub_topics=Raw('{{""}}'))
        n, res = drive(ctx, "replay", r.stdout_path, "finite-big")
        absorb(ctx, res, agg)
    else:
        sensitivity(ctx, finite_cfgs([2, 3], 1), 0)
        r = tlc_replay(ctx, "ReplayFinite", finite_cfgs([2, 3, 4, 5], 4), max_now=0, max_bad=1, timeout=3000)
        n, res = drive(ctx, "replay", r.stdout_path, "finite")
        absorb(ctx, res, agg)
        r = tlc_replay(ctx, "ReplayFiniteBig", finite_cfgs([17, 20, 24, 33, 48, 65], 3), max_now=0, max_bad=0, put_topics=Raw('{{""}}'), sub_topics=Raw('{{""}}'), timeout=3000)
        n, res = drive(ctx, "replay", r.stdout_path, "finite-big")
        absorb(ctx, res, agg)
        r = tlc_replay(ctx, "ReplayFiniteWide", finite_cfgs([6, 7, 8], 3), max_now=0, max_bad=1, put_topics=Raw('{{""}, {"t"}}'), timeout=3000)
        n, res = drive(ctx, "replay", r.stdout_path, "finite-wide")
        absorb(ctx, res, agg)
        # beyond the exhaustive constants: random histories on larger rings
        r = tlc_replay(ctx, "ReplayFiniteSim", finite_cfgs([7, 16], 6), max_now=0, max_bad=3, simulate="num=150", depth=48)
        n, res = drive(ctx, "replay", r.stdout_path, "finite-sim")
        absorb(ctx, res, agg)
    evidence(ctx, agg,
             "every reachable FiniteReplayer state (ring contents incl. topics, head/tail/count, rejected puts) within the "
             "constants, reached by a shortest history; in each, Replay is probed with every presented ID "
             "(unset, every put incl. evicted, next, next+3, literals) x 3 topic sets x a failure at every Send and at Flush; "
             "non-trivial = a probe that replays at least one message, distinct by (mode, ring shape, presented ID, topics, result)",
             exhaustive=ctx.quick,
             extra={"inductive_invariant": {"tool": "apalache-mc 0.58", "module": "specs/apalache/RingInd.tla", "capacities": "2..8", "history_length": "unbounded",
                                            "obligations_discharged": obl}})


def valid_plan(ctx):
    """(name, configs, max_now, max_bad, put_topics, simulate, depth) per TLC run; sized from measured state counts."""
    one, two = Raw('{{""}}'), Raw('{{""}, {"t"}}')
    three = Raw('{{""}, {"t"}, {"u", "t"}}')
    if ctx.quick:
        return [
            ("ValidTopics", valid_cfgs([2], [0, 1, 4], 4), 4, 0, two, None, None),      # 18k states
            ("ValidMultiTopics", valid_cfgs([2], [0], 3), 2, 0, three, None, None),     # messages put on several topics
            # 3 + 4 + 2 puts: a collection that shrinks the ring while the survivors straddle its physical end
            ("ValidStraddle", [dict(kind="valid", n=0, auto=a, ttl=2, gci=0, maxputs=9) for a in (False,)], 3, 0, one, None, None),
            ("ValidRejected", valid_cfgs([2], [0, 1], 2), 3, 1, two, None, None),       # 5k
            ("ValidTTL3", valid_cfgs([3], [1], 4), 5, 0, one, None, None),              # 1k
            ("ValidDeep", valid_cfgs([2], [0, 3], 8), 3, 0, one, None, None),           # 6k: grow to 8, wrap, shrink
            # TTL "forever" (the driver maps a TTL of 10^6 units to the largest time.Duration): nothing ever expires
            ("ValidForever", valid_cfgs([1000000], [0, 2], 3), 3, 0, one, None, None),
        ]
    return [
        ("ValidTopics", valid_cfgs([2, 3], [0, 1, 2, 4], 4), 5, 0, two, None, None),
        ("ValidMultiTopics", valid_cfgs([2], [0, 1], 4), 3, 0, three, None, None),
        ("ValidRejected", valid_cfgs([2], [0, 1, 2], 3), 4, 1, two, None, None),
        ("ValidDeep", valid_cfgs([2, 3], [0, 1, 3], 9), 4, 0, one, None, None),
        ("ValidDeeper", [dict(kind="valid", n=0, auto=a, ttl=2, gci=0, maxputs=12) for a in (False, True)], 4, 0, one, None, None),
        ("ValidSim", valid_cfgs([3, 5], [0, 2, 7], 40), 60, 3, two, "num=100", 80),
        ("ValidForever", valid_cfgs([1000000], [0, 2], 5), 4, 0, one, None, None),
    ]


def run_C09(ctx):
    agg = new_agg()
    sensitivity(ctx, valid_cfgs([2], [0], 2), 1)
    plan = valid_plan(ctx) + [("ValidGCI", valid_cfgs([2], [1, 3], 4 if ctx.quick else 5), 4, 0, Raw('{{""}}'), None, None, (0, 1, 3))]
    for name, cfgs, max_now, max_bad, tps, sim, depth, *more in plan:
        r = tlc_replay(ctx, name, cfgs, max_now=max_now, max_bad=max_bad, put_topics=tps, simulate=sim, depth=depth, timeout=3000,
                       gci_changes=more[0] if more else ())
        n, res = drive(ctx, "replay", r.stdout_path, name)
        absorb(ctx, res, agg)
    evidence(ctx, agg,
             "every reachable ValidReplayer state (ring, capacity incl. grow/shrink, clock, last collection) within the constants, "
             "reached by a shortest history of Put/rejected Put/Tick/GC; in each, Replay is probed with every presented ID x 3 "
             "topic sets x a failure at every Send and at Flush, with the clock injected through ValidReplayer.Now; "
             "non-trivial = a probe that replays at least one message",
             ["presenting the ID of an expired or collected event is left open by the property: nothing or all unexpired events are accepted"],
             exhaustive=ctx.quick)


def run_C18(ctx):
    agg = new_agg()
    one, two = Raw('{{""}}'), Raw('{{""}, {"t"}}')
    if ctx.quick:
        plan = [("RetainFinite", finite_cfgs([2, 3, 4], 3), 0, 1, one, None, None),
                ("RetainFiniteBig", finite_cfgs([17, 20, 33], 3), 0, 0, one, None, None),   # no power of two, no small ring's capacity
                ("RetainValid", valid_cfgs([2], [0, 3], 8), 3, 0, one, None, None),
                ("RetainValidTTL3", valid_cfgs([3], [1], 4), 5, 0, one, None, None),
                # a rejected Put (ID check) still runs the collection that is due
                ("RetainValidRejected", valid_cfgs([2], [1, 2], 3), 4, 1, one, None, None),
                # deep enough for a collection whose expired run wraps around the end of an 8-slot ring (18 operations)
                ("RetainValidDeep", [dict(kind="valid", n=0, auto=False, ttl=2, gci=0, maxputs=12)], 4, 0, one, None, None)]
    else:
        plan = [("RetainFinite", finite_cfgs([2, 3, 4, 5], 4), 0, 1, two, None, None),
                ("RetainFiniteBig", finite_cfgs([17, 20, 24, 33, 48, 65], 3), 0, 0, one, None, None),
                ("RetainValid", valid_cfgs([2, 3], [0, 1, 3], 9), 4, 0, one, None, None),
                ("RetainValidDeep", [dict(kind="valid", n=0, auto=a, ttl=2, gci=g, maxputs=13) for a in (False, True) for g in (0, 3)], 5, 0, one, None, None),
                ("RetainValidRejected", valid_cfgs([2, 3], [1, 2], 4), 5, 1, one, None, None),
                ("RetainValidSim", valid_cfgs([3, 5], [0, 2, 7], 40), 60, 1, one, "num=60", 80)]
    # the owner changes GCInterval in mid-history: what is due follows the interval now in force
    plan.append(("RetainValidGCI", valid_cfgs([2], [1, 3], 4 if ctx.quick else 6), 4 if ctx.quick else 5, 0, one, None, None, (0, 1, 3)))
    for name, cfgs, max_now, max_bad, tps, sim, depth, *more in plan:
        r = tlc_replay(ctx, name, cfgs, max_now=max_now, max_bad=max_bad, put_topics=tps, simulate=sim, depth=depth, timeout=3000,
                       sub_topics=Raw('{{""}}'), gci_changes=more[0] if more else ())
        n, res = drive(ctx, "retain", r.stdout_path, name)
        absorb(ctx, res, agg)
    evidence(ctx, agg,
             "every reachable replayer state within the constants (TLC invariant NoStaleSlot: no slot outside the live range holds a "
             "message, at most N occupied); each exported history is run on the real replayer in a goroutine that keeps no reference, "
             "a runtime finalizer on every stored message observes reachability after forced collections; "
             "non-trivial = a history with at least one evicted/collected message",
             ["the Go garbage collector and runtime.SetFinalizer are the observation instrument: a message the spec says is dropped "
              "must be finalised within 20 forced collections"],
             exhaustive=ctx.quick)


def apalache_ring(ctx, sensitivity=False):
    """Unbounded-history part of C08: Apalache discharges an inductive invariant of the ring arithmetic (any number of puts,
    capacities 2..8) and shows that the automatic-ID lookup is correct in every state satisfying it."""
    import shutil
    import subprocess
    d = os.path.join(ctx.work, "apalache")
    os.makedirs(d, exist_ok=True)
    src = os.path.join(core.SPECS, "apalache", "RingInd.tla")
    shutil.copy(src, d)
    obligations = [("Init => IndInv", ["--init=Init", "--inv=IndInv", "--length=0"]),
                   ("IndInv /\\ Next => IndInv'", ["--init=IndInit", "--inv=IndInv", "--length=1"]),
                   ("IndInv => FindOK", ["--init=IndInit", "--inv=FindOK", "--length=0"])]
    done = []
    for name, args in obligations:
        p = subprocess.run(["apalache-mc", "check", "--cinit=CInit", "--out-dir=" + os.path.join(d, "out")] + args + ["RingInd.tla"],
                           cwd=d, capture_output=True, text=True, timeout=900)
        if "The outcome is: NoError" not in p.stdout:
            raise core.ToolFailure("Apalache did not discharge %r:\n%s" % (name, p.stdout[-1500:]))
        done.append(name)
    if sensitivity:
        txt = open(src).read().replace("id - firstID >= count - 1 THEN -1", "id - firstID >= count THEN -1").replace("MODULE RingInd ", "MODULE RingIndAsFound ")
        with open(os.path.join(d, "RingIndAsFound.tla"), "w") as f:
            f.write(txt)
        p = subprocess.run(["apalache-mc", "check", "--cinit=CInit", "--out-dir=" + os.path.join(d, "out"), "--init=IndInit", "--inv=FindOK", "--length=0", "RingIndAsFound.tla"],
                           cwd=d, capture_output=True, text=True, timeout=900)
        if "The outcome is: Error" not in p.stdout:
            raise core.ToolFailure("sensitivity: the as-found lookup should violate FindOK under Apalache")
    return done
