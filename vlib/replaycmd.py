"""vcheck replay <file>: re-runs a recorded violation against the current working tree of /repo."""
import json
import os

from . import core


def run(path):
    rec = core.read_json(path)
    det = rec.get("detail") or {}
    ctx = core.Ctx("replay", "quick", 1)
    try:
        if "driver" in det and "behaviour" in det:
            beh = os.path.join(ctx.work, "one.ndjson")
            with open(beh, "w") as f:
                f.write(json.dumps(det["behaviour"]) + "\n")
            resp = os.path.join(ctx.work, "res.json")
            core.run_driver(ctx, [det["driver"], "-in", beh, "-out", resp] + list(det.get("driver_args", [])))
            res = core.read_json(resp)
            same = [v for v in res["violations"] if v["signature"] == rec.get("signature")]
            print("recorded: %s" % rec.get("what"))
            if same:
                print("REPRODUCED on the current tree: %s" % same[0]["what"])
                return 1
            if res["violations"]:
                print("a different violation shows on the current tree: %s" % res["violations"][0]["what"])
                return 1
            print("not reproduced on the current tree (%d evaluations, no violation)" % res["evaluations"])
            return 0
        if det.get("driver") == "joe" and "scenario_seed" in det:
            det["trace_spec"] = "JoeTrace"
        if det.get("driver") == "e2e" and "scenario_seed" in det:
            det["trace_spec"] = "E2ETrace"
        if "trace_spec" in det:
            from . import tracecheck
            return tracecheck.replay(ctx, rec)
        print("replay file has no re-runnable payload; recorded violation: %s" % rec.get("what"))
        return 2
    except core.ToolFailure as e:
        core.log(str(e))
        return 2
    finally:
        ctx.cleanup()
