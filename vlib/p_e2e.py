"""C05 (EndToEnd.tla, E2ETrace.tla): the library's client against the library's server over connections that are cut."""
import json
import os
import re
import subprocess

from . import core


def mc(ctx, name, *, pub, conns, cuts, misaligned=False, liveness=False, timeout=1800):
    consts = dict(MaxPub=pub, MaxConns=conns, MaxCuts=cuts, MisalignedEOF=misaligned)
    d = core.write_mc(ctx, name, "EndToEnd", consts, spec="FairSpec" if liveness else "Spec", invariants=["NoGapNoDup", "OnlyPublished"],
                      properties=["CaughtUp"] if liveness else [])
    return core.run_tlc(ctx, d, name, timeout=timeout, expect_violation=misaligned)


def run_e2e(ctx, n, base, events, tag):
    binp = core.build_harness(ctx)
    trace = os.path.join(ctx.work, "e2e-%s-%d.ndjson" % (tag, base))
    errp = trace + ".err"
    with open(errp, "w") as fe:
        try:
            p = subprocess.run([binp, "e2e", "-n", str(n), "-base", str(base), "-events", str(events), "-o", trace], stderr=fe, stdout=subprocess.DEVNULL,
                               timeout=1800, env=dict(core.GOENV, VERIF_SEED=str(ctx.seed)))
        except subprocess.TimeoutExpired:
            raise core.ToolFailure("e2e driver timed out")
    err = open(errp, errors="replace").read()
    last = re.findall(r"^SCENARIO (\d+)$", err, re.M)
    inc = re.findall(r"^INCOMPLETE (\d+) (.*)$", err, re.M)
    crashed = None
    if p.returncode != 0:
        m = re.search(r"^(panic: .*|fatal error: .*)$", err, re.M)
        if not m:
            raise core.ToolFailure("e2e driver failed rc=%d: %s" % (p.returncode, err[-2000:]))
        i = err.find(m.group(1))
        crashed = dict(seed=int(last[-1]) if last else None, panic=m.group(1), stack=err[i:i + 3000])
    return trace, inc, crashed


def validate(ctx, trace, tag):
    d = core.write_mc(ctx, "E2E_" + tag, "E2ETrace", {}, spec="Spec", invariants=["NoGapNoDup"], constraint="HighWater", postcondition="Accepted")
    env = {"TRACE": trace, "JAVA_TOOL_OPTIONS": "-Dtlc2.tool.queue.IStateQueue=StateDeque"}
    r = core.run_tlc(ctx, d, "E2E_" + tag, workers=1, timeout=1800, env=env)
    if r.violated is None:
        return True, None
    txt = open(r.stdout_path, errors="replace").read()
    i = txt.find("REJECTED")
    j = txt.find("Error:", i)
    return False, " ".join(txt[max(0, i - 4):j if j > 0 else i + 2000].split())[:2000] if i >= 0 else "violated: %s" % r.violated


def run_C05(ctx):
    q = ctx.quick
    # the composition, exhaustively: safety + catching up; and the sensitivity variant (a clean EOF inside an event) must fail
    mc(ctx, "E2E_mc", pub=5 if q else 7, conns=4 if q else 5, cuts=3 if q else 4, liveness=True)
    r = mc(ctx, "E2E_misaligned", pub=3, conns=2, cuts=1, misaligned=True)
    if r.violated not in ("NoGapNoDup", "OnlyPublished"):
        raise core.ToolFailure("sensitivity: a handler end inside an event should break NoGapNoDup / OnlyPublished, TLC reported %r" % r.violated)
    total_runs = 60 if q else 1500
    events = 80 if q else 120
    base = ctx.seed * 1000000 + 1
    done, nrun, nev, incomplete, samples = 0, 0, 0, [], []
    while done < total_runs:
        n = min(150, total_runs - done)
        trace, inc, crashed = run_e2e(ctx, n, base + done, events, "t")
        incomplete += inc
        lines = open(trace).read().splitlines()
        if crashed:
            if "go-sse" in crashed["stack"].split("\n\ngoroutine")[1 if "\n\ngoroutine" in crashed["stack"] else 0]:
                core.report(ctx, "the server process died in run %s: %s" % (crashed["seed"], crashed["panic"]),
                            {"driver": "e2e", "scenario_seed": crashed["seed"], "panic": crashed["panic"], "stack": crashed["stack"]}, "e2e:crash:" + crashed["panic"])
            else:
                raise core.ToolFailure("the e2e driver crashed: %s\n%s" % (crashed["panic"], crashed["stack"]))
            done = (crashed["seed"] - base) + 1
            continue
        if lines:
            nev += len(lines)
            nrun += sum(1 for l in lines if '"e":"reset"' in l)
            if not samples:
                samples = [json.loads(l) for l in lines[:30]]
            pending = [lines]
            k = 0
            while pending:
                chunk = pending.pop()
                tp = os.path.join(ctx.work, "e2e-val-%d-%d.ndjson" % (done, k))
                k += 1
                with open(tp, "w") as f:
                    f.write("\n".join(chunk) + "\n")
                ok, rej = validate(ctx, tp, "%d_%d" % (done, k))
                if ok:
                    continue
                m = re.search(r"REJECTED at line\D+(\d+)", rej or "")
                at = int(m.group(1)) - 1 if m else 0
                a = max(j for j in range(0, min(at, len(chunk) - 1) + 1) if '"e":"reset"' in chunk[j])
                b = next((j for j in range(at + 1, len(chunk)) if '"e":"reset"' in chunk[j]), len(chunk))
                keep = os.path.join(core.OUT, "e2e-trace-%s-s%d-%d.ndjson" % (ctx.tier, ctx.seed, done + k))
                with open(keep, "w") as f:
                    f.write("\n".join(chunk[a:b]) + "\n")
                seed = json.loads(chunk[a]).get("seed")
                core.report(ctx, "E2ETrace.tla rejects what the real client/server stack did in run %s: %s" % (seed, (rej or "")[:600]),
                            {"trace_spec": "E2ETrace", "trace": keep, "scenario_seed": seed, "rejected": rej}, "e2e:trace:" + (re.search(r'e \|-> "(\w+)"', rej or "") or [None, "?"])[1])
                if b < len(chunk):
                    pending.append(chunk[b:])
        done += n
    if len(incomplete) > max(5, total_runs // 3):
        raise core.ToolFailure("%d of %d end-to-end runs could not be judged: %s" % (len(incomplete), total_runs, incomplete[:3]))
    cov = {
        "states": ctx.states, "transitions": ctx.transitions, "traces_validated_against_impl": nrun, "samples": samples,
        "evaluations": nev, "distinct_nontrivial": nrun,
        "rule": "real sse.Server + Joe + FiniteReplayer / ValidReplayer (manual / automatic IDs) behind net/http on loopback, real sse.Client with a 1-4 ms backoff; %d events with "
                "multi-line / look-alike payloads, types and retry fields; after the client's first event 6-13 connections per run are cut: RST or FIN after a byte offset drawn in "
                "1..900 (also inside the response headers), or at a random moment, or by ending the handler after the stream has started; every Publish, every request's "
                "Last-Event-Id at the server, every event the callbacks get, every cut is one trace event, validated by E2ETrace.tla; evaluations = events, "
                "distinct_nontrivial = runs; runs that could not be judged (no catch-up within 15 s): %d" % (events, len(incomplete)),
        "exhaustive": False, "incomplete_runs": len(incomplete),
    }
    core.write_evidence(ctx, "model_checking", cov, [
        "EndToEnd.tla composes the parts' reference behaviours; the refinements are checked by C03/C04 (Joe), C08/C09 (replayers), C16 (Session), C01/C10 (client)",
        "the replayer holds everything published during a run", "cuts start after the client's first event; a handler ends only after the stream has started",
        "no catch-up within the deadline without any wrong event is a tool failure (exit 2), not a verdict",
    ])
