"""vcheck replay for violations found by trace validation (direction B)."""
import os

from . import core


def replay(ctx, rec):
    det = rec["detail"]
    if det.get("trace_spec") == "JoeTrace":
        from . import p_joe
        seed, focus = det.get("scenario_seed"), det.get("focus", "mix")
        print("recorded: %s" % rec.get("what", "")[:600])
        if os.path.exists(det.get("trace", "")):
            ok, rej, _ = p_joe.validate_joe_trace(ctx, det["trace"], "recorded")
            print("recorded trace against the current specification: %s" % ("accepted" if ok else "rejected: " + (rej or "")[:400]))
        if seed is None:
            return 2
        bad = 0
        for i in range(20):
            trace, crashed, blocked = p_joe.run_scenarios(ctx, focus, 1, seed, "replay%d" % i)
            if crashed or blocked:
                bad += 1
                continue
            ok, rej, _ = p_joe.validate_joe_trace(ctx, trace, "replay%d" % i)
            if not ok:
                bad += 1
                print("run %d of scenario %s on the current tree is rejected: %s" % (i, seed, (rej or "")[:300]))
        print("scenario %s re-run 20 times on the current tree: %d rejected / crashed / blocked" % (seed, bad))
        return 1 if bad else 0
    if det.get("trace_spec") == "E2ETrace":
        from . import p_e2e
        seed = det.get("scenario_seed")
        print("recorded: %s" % rec.get("what", "")[:600])
        if os.path.exists(det.get("trace", "")):
            ok, rej = p_e2e.validate(ctx, det["trace"], "recorded")
            print("recorded trace against the current specification: %s" % ("accepted" if ok else "rejected: " + (rej or "")[:400]))
        if seed is None:
            return 2
        bad = 0
        for i in range(10):
            trace, inc, crashed = p_e2e.run_e2e(ctx, 1, seed, 80, "replay%d" % i)
            if crashed:
                bad += 1
                continue
            ok, rej = p_e2e.validate(ctx, trace, "replay%d" % i)
            if not ok:
                bad += 1
                print("run %d with seed %s on the current tree is rejected: %s" % (i, seed, (rej or "")[:300]))
        print("seed %s re-run 10 times on the current tree (cut timing is not reproducible exactly): %d rejected / crashed" % (seed, bad))
        return 1 if bad else 0
    if det.get("trace_spec") in ("MessageTrace", "TokenizerTrace"):
        print("recorded: %s" % rec.get("what", "")[:1500])
        return 2
    return 2
