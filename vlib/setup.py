"""vcheck setup: offline build of the harness and a parse of every specification."""
import os
import subprocess
import sys

from . import core


def run():
    ctx = core.Ctx("setup", "quick", 0)
    try:
        core.build_harness(ctx)
        bad = 0
        for f in sorted(os.listdir(core.SPECS)):
            if not f.endswith(".tla"):
                continue
            p = subprocess.run(["java", "-cp", "/opt/veriftools/tla/tla2tools.jar:/opt/veriftools/tla/CommunityModules-deps.jar",
                                "tla2sany.SANY", f], cwd=core.SPECS, capture_output=True, text=True)
            ok = p.returncode == 0 and "Semantic errors" not in p.stdout and "Parsing or semantic analysis failed" not in p.stdout \
                and "*** Errors" not in p.stdout and "Fatal" not in p.stdout
            print("sany %-20s %s" % (f, "ok" if ok else "FAILED"))
            if not ok:
                sys.stdout.write(p.stdout[-2000:])
                bad += 1
        return 1 if bad else 0
    except core.ToolFailure as e:
        core.log(str(e))
        return 2
    finally:
        ctx.cleanup()
