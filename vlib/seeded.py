"""vcheck seeded [names]: applies each seeded change (seeded/<name>/patch.diff) to /repo, runs the checks of the
property it breaks (meta.json "property", plus optional "also"), undoes it straight afterwards, and records which
checks caught it in seeded/RESULTS.json."""
import json
import os
import subprocess
import sys
import time

from . import core

SEEDED = os.path.join(core.ROOT, "seeded")


def git(*a):
    return subprocess.run(["git", "-C", core.REPO] + list(a), capture_output=True, text=True)


def run_isolated(names, tier):
    """Same as run(), but each change is applied to a scratch worktree of /repo's HEAD (outside /repo and /verif) and the
    checks are pointed at it through VERIF_REPO, so that /repo itself is never touched."""
    import shutil
    import tempfile
    names = names or sorted(d for d in os.listdir(SEEDED) if os.path.isdir(os.path.join(SEEDED, d)))
    resp = os.path.join(SEEDED, "RESULTS.json")
    results = core.read_json(resp) if os.path.exists(resp) else {}
    rc_all = 0
    for name in names:
        d = os.path.join(SEEDED, name)
        meta = core.read_json(os.path.join(d, "meta.json"))
        checks = [meta["property"]] + list(meta.get("also", []))
        wt = tempfile.mkdtemp(prefix="verif-seeded-", dir="/tmp")
        os.rmdir(wt)
        subprocess.run(["git", "-C", "/repo", "worktree", "add", "-q", "--detach", wt, "HEAD"], check=True)
        try:
            a = subprocess.run(["git", "-C", wt, "apply", os.path.join(d, "patch.diff")], capture_output=True, text=True)
            if a.returncode != 0:
                print("%s: patch does not apply: %s" % (name, a.stderr.strip()))
                results[name] = {"applies": False}
                continue
            entry = {"applies": True, "property": meta["property"], "tier": tier, "isolated_worktree": True,
                     "repo_head": subprocess.run(["git", "-C", "/repo", "rev-parse", "--short", "HEAD"], capture_output=True, text=True).stdout.strip(), "checks": {}}
            for pid in checks:
                t0 = time.time()
                p = subprocess.run([os.path.join(core.ROOT, "bin", "vcheck"), "run", pid, "--tier", tier], capture_output=True, text=True, cwd=core.ROOT,
                                   env=dict(os.environ, VERIF_REPO=wt, VERIF_EVIDENCE_DIR=os.path.join(wt, ".verif-evidence")))
                viol = [l for l in p.stdout.splitlines() if l.startswith("VIOLATION")]
                firsts = [l.strip() for l in p.stderr.splitlines() if l.startswith("  ")][:3]
                entry["checks"][pid] = {"exit": p.returncode, "violation_lines": len(viol), "first": firsts, "wall_s": round(time.time() - t0, 1)}
                print("%s: check %s exit=%d violations=%d %s" % (name, pid, p.returncode, len(viol), firsts[:1]), flush=True)
                if p.returncode == 2:
                    print(p.stderr[-1500:])
            entry["caught_by"] = [pid for pid, r in entry["checks"].items() if r["exit"] == 1]
            if not entry["caught_by"]:
                rc_all = 1
            results[name] = entry
            with open(resp, "w") as f:
                json.dump(results, f, indent=1, sort_keys=True)
                f.write("\n")
        finally:
            subprocess.run(["git", "-C", "/repo", "worktree", "remove", "--force", wt])
            shutil.rmtree(wt, ignore_errors=True)
    return rc_all


def run(names, tier, isolated=False):
    if isolated:
        return run_isolated(names, tier)
    if git("status", "--porcelain", "--untracked-files=no").stdout.strip():
        print("refusing: /repo has uncommitted changes", file=sys.stderr)
        return 2
    names = names or sorted(d for d in os.listdir(SEEDED) if os.path.isdir(os.path.join(SEEDED, d)))
    resp = os.path.join(SEEDED, "RESULTS.json")
    results = core.read_json(resp) if os.path.exists(resp) else {}
    rc_all = 0
    for name in names:
        d = os.path.join(SEEDED, name)
        meta = core.read_json(os.path.join(d, "meta.json"))
        checks = [meta["property"]] + list(meta.get("also", []))
        a = git("apply", os.path.join(d, "patch.diff"))
        if a.returncode != 0:
            print("%s: patch does not apply: %s" % (name, a.stderr.strip()))
            results[name] = {"applies": False}
            continue
        entry = {"applies": True, "property": meta["property"], "tier": tier, "repo_head": git("rev-parse", "--short", "HEAD").stdout.strip(), "checks": {}}
        try:
            for pid in checks:
                t0 = time.time()
                p = subprocess.run([os.path.join(core.ROOT, "bin", "vcheck"), "run", pid, "--tier", tier], capture_output=True, text=True, cwd=core.ROOT)
                viol = [l for l in p.stdout.splitlines() if l.startswith("VIOLATION")]
                firsts = [l.strip() for l in p.stderr.splitlines() if l.startswith("  ")][:3]
                entry["checks"][pid] = {"exit": p.returncode, "violation_lines": len(viol), "first": firsts, "wall_s": round(time.time() - t0, 1)}
                print("%s: check %s exit=%d violations=%d %s" % (name, pid, p.returncode, len(viol), firsts[:1]))
                if p.returncode == 2:
                    print(p.stderr[-1500:])
        finally:
            git("checkout", "--", ".")
        entry["caught_by"] = [pid for pid, r in entry["checks"].items() if r["exit"] == 1]
        if not entry["caught_by"]:
            rc_all = 1
        results[name] = entry
        with open(resp, "w") as f:
            json.dump(results, f, indent=1, sort_keys=True)
            f.write("\n")
    return rc_all
