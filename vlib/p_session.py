"""C16 (Session.tla, ServeHTTP.tla): the HTTP side of the protocol."""
import os

from . import core
from .core import Raw


def run_C16(ctx):
    q = ctx.quick
    agg = dict(evaluations=0, distinct=0, behaviours=0, samples=[], n_violations=0)
    faults = [dict(kind="none", n=0)] + [dict(kind="flush", n=k) for k in (1, 2, 3)] + [dict(kind="write", n=k) for k in (1, 2, 3)]
    consts = dict(Shapes=Raw('{"flusher", "flusherr", "wrap1", "wrap2", "wrapflusher", "both"}'), Msgs=Raw('{"m1", "m2", "empty"}'), MaxOps=4 if q else 5,
                  Faults=Raw("{" + ", ".join(core.tla_value(f) for f in faults) + "}"))
    d = core.write_mc(ctx, "SessionGen", "Session", consts, invariants=["HeaderFirst", "UpgradeOnce", "BodyIsSends", "FlushPushes", "FirstError", "Export"])
    r = core.run_tlc(ctx, d, "SessionGen", timeout=3000)
    beh = os.path.join(ctx.work, "beh-session.ndjson")
    core.extract_exports(r.stdout_path, beh)
    resp = os.path.join(ctx.work, "res-session.json")
    core.run_driver(ctx, ["session", "-in", beh, "-out", resp], timeout=3000)
    res = core.read_json(resp)
    os.remove(beh)
    d2 = core.write_mc(ctx, "ServeGen", "ServeHTTP", {"MaxOps": 2}, invariants=["WritesOnlyOnFailure", "RejectedIsSilent", "Export"])
    r2 = core.run_tlc(ctx, d2, "ServeGen", workers=1, timeout=600)
    beh2 = os.path.join(ctx.work, "beh-serve.ndjson")
    core.extract_exports(r2.stdout_path, beh2)
    resp2 = os.path.join(ctx.work, "res-serve.json")
    core.run_driver(ctx, ["serve", "-in", beh2, "-out", resp2], timeout=600)
    res2 = core.read_json(resp2)
    for rr in (res, res2):
        for v in rr["violations"]:
            core.report(ctx, v["what"], v["detail"], v["signature"])
        agg["evaluations"] += rr["evaluations"]
        agg["distinct"] += rr["distinct_nontrivial"]
        agg["samples"] += rr["samples"][:2]
        agg["n_violations"] += rr["n_violations"]
    agg["behaviours"] = res["behaviours"] + res2["behaviours"]
    core.log("%s: session %d behaviours %s; serve %d cases %s" % (ctx.pid, res["behaviours"], res["notes"].get("violation_signatures"), res2["evaluations"], res2["notes"].get("violation_signatures")))
    cov = {
        "states": ctx.states, "transitions": ctx.transitions, "traces_validated_against_impl": agg["behaviours"], "samples": agg["samples"][:4],
        "evaluations": agg["evaluations"], "distinct_nontrivial": agg["distinct"],
        "rule": "every sequence of <= %d Send / Flush calls over messages {m1, m2, empty} x 6 flushing writer shapes (Flusher, FlushError, both, wrapped once / twice via Unwrap) x a failure of the k-th underlying flush (k<=3) or of a write "
                "of the k-th writing Send (k<=3; tried at every Write call of that Send, accepting half the bytes); the ordered log of header / flush / body writes on a "
                "recording writer is compared with the spec's log, every call's return with the spec's; plus all 96 combinations of (can flush, Last-Event-Id absent / "
                "empty / valid / multi-line, OnSession unset / reject / accept with nil / empty / one / two topics, provider nil / error) through Server.ServeHTTP on 3 writer shapes, and "
                "Server.Publish with 0 / 1 / 2 topics - alone and as the second operation after every accepted request in the same process (what an operation does is a function of that "
                "operation alone)" % (4 if q else 5),
        "exhaustive": True, "real_code_disagreements": agg["n_violations"],
    }
    core.write_evidence(ctx, "model_checking", cov, [
        "write granularity is the code's choice: consecutive writes of one Send are compared as one byte string",
        "after a failed upgrade flush a later call may set the header and flush again",
        "a provider error after the stream has started is outside the property (errors before anything was sent)",
    ])
