"""C01 (Stream.tla) and C20 (Scanner.tla): the event-stream reader."""
import json
import os

from . import core
from .core import Raw


def bytes_table(ctx):
    """Exports the token expansion table from Bytes.tla (the ASSUMEs in it are checked by this run)."""
    p = os.path.join(ctx.work, "table.json")
    if os.path.exists(p):
        return p
    d = core.write_mc(ctx, "BytesTable", "Bytes, Json", {}, init="TInit", nxt="TNext",
                      extra_defs="VARIABLE tb\nTInit == tb = 0 /\\ PrintT(ToJson(TableExport))\nTNext == UNCHANGED tb")
    r = core.run_tlc(ctx, d, "BytesTable", workers=1, timeout=120)
    rows = list(core.tlc_json_lines(r.stdout_path))
    if len(rows) != 1:
        raise core.ToolFailure("Bytes table export failed")
    with open(p, "w") as f:
        json.dump(rows[0], f)
    return p


def toks(*names):
    return Raw("{" + ", ".join(json.dumps(n) for n in names) + "}")


def tpls(*seqs):
    return Raw("{" + ", ".join(core.tla_value(list(s)) for s in seqs) + "}")


CORE13 = ["LF", "CR", "COLON", "SP", "data", "id", "retry", "event", "x", "d1", "BOM", "NUL", "PLUS"]
EXTRA = ["dat", "datax", "Data", "FF", "EFBB", "eacute", "MINUS", "d07", "TAB", "message", "y", "d0"]

LINES = [
    ["data", "COLON", "SP", "x", "LF"],
    ["data", "COLON", "y", "CR", "LF"],
    ["data", "LF"],
    ["id", "COLON", "SP", "d1", "LF"],
    ["id", "COLON", "LF"],
    ["id", "COLON", "x", "NUL", "CR"],
    ["event", "COLON", "SP", "SP", "message", "LF"],
    ["retry", "COLON", "d07", "LF"],
    ["retry", "COLON", "MINUS", "d1", "LF"],
    ["retry", "COLON", "PLUS", "d1", "LF"],
    ["retry", "COLON", "SP", "MINUS", "d0", "CR", "LF"],
    ["retry", "COLON", "d0", "LF"],                       # a retry of zero is a valid retry field
    ["retry", "COLON", "SP", "d0", "d0", "LF"],
    ["COLON", "x", "LF"],
    ["COLON", "x", "CR"],                                 # a comment line ended by a bare CR (mixed line ends inside one block)
    ["datax", "COLON", "x", "LF"],
    ["LF"],
    ["CR", "LF"],
    ["CR"],
    ["BOM"],
    ["data", "COLON", "x"],
    ["eacute", "FF", "LF"],
]

BIG = [
    ["data", "COLON", "F4090", "LF"],
    ["data", "COLON", "SP", "F4096", "CR", "LF"],
    ["data", "COLON", "F61440", "LF"],
    ["data", "COLON", "F4000", "LF"],
    ["COLON", "F4096", "LF"],
    ["id", "COLON", "F61", "LF"],
    ["LF"],
    ["data", "COLON", "x", "LF"],
    ["CR"],
]


def tlc_stream(ctx, name, alphabet, templates, maxlen, *, machine, modes=("read", "conn", "whatwg"), timeout=900,
               simulate=None, depth=None, workers=None):
    consts = dict(Alphabet=toks(*alphabet), Templates=tpls(*templates), MaxLen=maxlen, MaxBytes=65000,
                  Modes=Raw("{" + ", ".join(json.dumps(m) for m in modes) + "}"), RunMachine=machine)
    if machine:
        d = core.write_mc(ctx, name, "Stream", consts, invariants=["NoFlushOnError", "EventsBounded", "IdRule"],
                          properties=["OutGrows"])
    else:
        d = core.write_mc(ctx, name, "Stream", consts, invariants=["ModesAgree", "CleanEndFlush", "Export"])
    return core.run_tlc(ctx, d, name, timeout=timeout, simulate=simulate, depth=depth, workers=workers,
                        seed=ctx.seed if simulate else None)


def drive_stream(ctx, tlc_out, tag, pairs, agg, cmd="stream", extra=()):
    beh = os.path.join(ctx.work, "beh-%s.ndjson" % tag)
    n = core.extract_exports(tlc_out, beh, dedupe=True)
    if n == 0:
        raise core.ToolFailure("TLC exported no behaviours (%s)" % tag)
    resp = os.path.join(ctx.work, "res-%s.json" % tag)
    core.run_driver(ctx, [cmd, "-in", beh, "-out", resp, "-table", bytes_table(ctx), "-pairs", pairs] + list(extra), timeout=3000)
    res = core.read_json(resp)
    os.remove(beh)
    for v in res["violations"]:
        core.report(ctx, v["what"], v["detail"], v["signature"])
    core.log("%s/%s: %d behaviours, %d evaluations, signatures %s" % (ctx.pid, tag, res["behaviours"], res["evaluations"],
                                                                    res["notes"].get("violation_signatures")))
    agg["evaluations"] += res["evaluations"]
    agg["distinct"] += res["distinct_nontrivial"]
    agg["behaviours"] += res["behaviours"]
    agg["samples"] += res["samples"][:2]
    agg["n_violations"] += res["n_violations"]
    for k, v in res["notes"].items():
        if isinstance(v, int):
            agg["notes"][k] = agg["notes"].get(k, 0) + v
    return res


TOK_ALPHA = ["LF", "CR", "COLON", "data", "id", "x", "BOM", "SP"]


def tlc_tokenizer(ctx, name, maxlen, *, bom=False, nxt=False, eager=False, timeout=1800):
    consts = dict(Alphabet=toks(*TOK_ALPHA), MaxLen=maxlen, AsFoundBOM=bom, AsFoundNext=nxt, EagerFirst=eager)
    d = core.write_mc(ctx, name, "Tokenizer", consts, invariants=["Refines"])
    return core.run_tlc(ctx, d, name, timeout=timeout, expect_violation=(bom or nxt or eager))


def tokenizer_layer(ctx, agg, q):
    """The implementation-shaped layer: refinement Tokenizer => StreamCore for every input and every segmentation,
    its three sensitivity variants (the pinned tree's D1 and D5, the seeded change C01-a), and trace validation of
    the chunks the real scanner hands out."""
    tlc_tokenizer(ctx, "TokRefines", 5 if q else 6)
    for nm, kw in (("TokD1", dict(bom=True)), ("TokD5", dict(nxt=True)), ("TokEager", dict(eager=True))):
        r = tlc_tokenizer(ctx, nm, 4 if nm != "TokEager" else 5, **kw)
        if r.violated != "Refines":
            raise core.ToolFailure("sensitivity: %s should violate Refines, TLC reported %r" % (nm, r.violated))
    r = tlc_stream(ctx, "StreamGenTok", TOK_ALPHA + ["retry", "d1"], [], 4 if q else 5, machine=False)
    beh = os.path.join(ctx.work, "beh-tok.ndjson")
    core.extract_exports(r.stdout_path, beh, dedupe=True)
    resp = os.path.join(ctx.work, "res-tok.json")
    cases = os.path.join(ctx.work, "cases-tok.ndjson")
    core.run_driver(ctx, ["chunks", "-in", beh, "-out", resp, "-table", bytes_table(ctx), "-cases", cases, "-every", 3 if q else 1, "-segs", 8,
                           "-alphabet", ",".join(TOK_ALPHA + ["retry", "d1"])], timeout=1800)
    res = core.read_json(resp)
    os.remove(beh)
    for v in res["violations"]:
        core.report(ctx, v["what"], v["detail"], v["signature"])
    consts = dict(AsFoundBOM=False, AsFoundNext=False, EagerFirst=False)
    d = core.write_mc(ctx, "TokTrace", "TokenizerTrace", consts, spec="Spec", constraint="HighWater", postcondition="Accepted")
    r = core.run_tlc(ctx, d, "TokTrace", workers=1, timeout=1800, env={"CASES": cases, "JAVA_TOOL_OPTIONS": "-Dtlc2.tool.queue.IStateQueue=StateDeque"})
    if r.violated is not None:
        txt = open(r.stdout_path, errors="replace").read()
        i = txt.find("REJECTED")
        j = txt.find("Error:", i)
        rej = " ".join(txt[max(0, i - 4):j if j > 0 else i + 2000].split())[:2000]
        core.report(ctx, "TokenizerTrace.tla rejects the chunks / events of the real parser: " + rej[:900], {"trace_spec": "TokenizerTrace", "rejected": rej}, "stream:tokenizer-trace")
    agg["notes"]["tokenizer_trace_cases"] = res["notes"].get("trace_cases", 0)
    agg["evaluations"] += res["evaluations"]
    agg["behaviours"] += res["notes"].get("trace_cases", 0)
    core.log("%s/tokenizer: %d trace cases validated" % (ctx.pid, res["notes"].get("trace_cases", 0)))


def run_C01(ctx):
    agg = dict(evaluations=0, distinct=0, behaviours=0, samples=[], n_violations=0, notes={})
    q = ctx.quick
    tokenizer_layer(ctx, agg, q)
    # 1. the interpretation as a state machine: invariants on every intermediate state, all three modes
    tlc_stream(ctx, "StreamMachine", CORE13[:9] + ["NUL"], [], 3 if q else 4, machine=True)
    # 2. exhaustive token strings -> both entry points, all segmentations
    r = tlc_stream(ctx, "StreamGenTokens", CORE13, [], 4 if q else 5, machine=False, timeout=3000)
    drive_stream(ctx, r.stdout_path, "tokens", 12 if q else 16, agg)
    # 3. look-alike names, invalid UTF-8, partial BOM, multi-byte runes
    r = tlc_stream(ctx, "StreamGenExtra", ["LF", "CR", "COLON", "SP", "data", "retry", "BOM"] + EXTRA, [], 3 if q else 4, machine=False, timeout=3000)
    drive_stream(ctx, r.stdout_path, "extra", 12 if q else 16, agg)
    # 3b. bytes / runes that Unicode-aware helpers treat as space or line break but the format does not
    r = tlc_stream(ctx, "StreamGenUniSpace", ["LF", "CR", "COLON", "SP", "data", "id", "x", "VT", "FORMFEED", "NEL", "NBSP", "LS"], [], 4 if q else 5, machine=False, timeout=3000)
    drive_stream(ctx, r.stdout_path, "unispace", 0 if q else 12, agg)
    # 4. whole lines: longer streams
    r = tlc_stream(ctx, "StreamGenLines", [], LINES, 3 if q else 4, machine=False, timeout=3000)
    drive_stream(ctx, r.stdout_path, "lines", 0 if q else 14, agg)
    # 5. events straddling the scanner's 4 KiB / 64 KiB buffer sizes
    r = tlc_stream(ctx, "StreamGenBig", [], BIG, 3 if q else 4, machine=False, timeout=3000)
    drive_stream(ctx, r.stdout_path, "big", 0, agg)
    if not q:
        r = tlc_stream(ctx, "StreamSimLines", [], LINES, 14, machine=False, simulate="num=400", depth=15, workers=4)
        drive_stream(ctx, r.stdout_path, "simlines", 0, agg)
    cov = {
        "states": ctx.states, "transitions": ctx.transitions,
        "traces_validated_against_impl": agg["behaviours"],
        "samples": agg["samples"][:4],
        "evaluations": agg["evaluations"], "distinct_nontrivial": agg["distinct"],
        "rule": "every token string over the generation alphabets up to the stated length (13 core tokens; 19 look-alike/invalid-UTF-8 tokens; 12 tokens with VT, FF, U+0085, U+00A0, U+2028; "
                "17 line templates; 9 large-line templates with 4 KiB/64 KiB fillers), each expanded to bytes with Bytes.tla's table and run through "
                "sse.Read and a Connection, for a clean end and an end by read error, under: whole input, every single cut, byte-at-a-time, a "
                "zero-length read, every pair of cuts for short inputs, end reported with/without the last chunk, and every early-stop position; "
                "evaluations = executions of the real code; non-trivial = distinct inputs that yield an event or do not end in a plain EOF",
        "exhaustive": bool(q),
        "real_code_disagreements": agg["n_violations"],
        "notes": agg["notes"],
    }
    core.write_evidence(ctx, "model_checking", cov, [
        "token-level interpretation equals byte-level interpretation under the side conditions ASSUMEd (and checked by TLC) in Bytes.tla",
        "invalid UTF-8 is compared byte for byte (go-sse does not decode; no property asks for U+FFFD)",
        "which error ends a stream cut by a read error, and Connect returning nil, are decided by C11, not here",
        "the tokenizer layer (TokenizerCore.tla) is checked to refine StreamCore for all inputs of <= 5/6 tokens over 8 tokens and all segmentations at token boundaries; "
        "the chunks the real scanner hands out (verif hook) are validated against it",
    ])


# ---------------------------------------------------------------------------------------------- C20
def scan_streams(limit, deep):
    sizes = sorted({s for s in (16, 4095, 4096, 4097, 8192) if s < limit} | {limit - 1, limit + 1, 2 * limit + 5})
    sizes = [s for s in sizes if s >= 12]
    first = [(b, s - b) for s in sizes for b in (0, 1, 5) if s - b >= 8]
    second = [(b, s - b) for s in (16, limit - 1, limit + 1) for b in (0, 5) if s - b >= 8 and s >= 12]
    tails = [("none", 0), ("blank", 3), ("line", 20), ("event", 20), ("line", limit + 10), ("blank", limit + 10), ("event", limit + 40)]
    seqs = [[]] + [[u] for u in first] + [[u, v] for u in first for v in second]
    if deep:
        seqs += [[u, v, w] for u in first[::2] for v in second for w in second]
    out = []
    for sq in seqs:
        for k, n in tails:
            out.append(dict(units=[dict(b=b, e=e, c=0) for b, e in sq], tail=dict(kind=k, n=n)))
    if limit <= 10000:
        # heartbeats: comment-only blocks, each a token of its own, more of them than the limit holds, then an event
        n = limit // 15 + 20
        hb = [dict(b=0, e=15, c=1) for _ in range(n)]
        out.append(dict(units=hb + [dict(b=0, e=20, c=0)], tail=dict(kind="none", n=0)))
        out.append(dict(units=[dict(b=1, e=16, c=0)] + hb[:n // 2] + [dict(b=2, e=16, c=0)] + hb[:n // 2 + 3], tail=dict(kind="event", n=20)))
    if limit <= 300:
        # many small events: the buffer (at its maximum size) fills again and again, its end falling on every offset of a unit
        for off in range(0, 12 if deep else 6):
            units = [dict(b=(i + off) % 3 * 2, e=11 + (i * 7 + off * 5) % 23, c=0) for i in range(10)]
            out.append(dict(units=units, tail=dict(kind="none", n=0)))
            out.append(dict(units=units[:7], tail=dict(kind="event", n=20)))
    return out


def run_C20(ctx):
    agg = dict(evaluations=0, distinct=0, behaviours=0, samples=[], n_violations=0, notes={})
    q = ctx.quick
    cfgs = [dict(entry="read", initcap=0, max=0), dict(entry="read", initcap=0, max=100), dict(entry="read", initcap=0, max=5000),
            dict(entry="conn", initcap=8192, max=1000), dict(entry="conn", initcap=100, max=10000), dict(entry="conn", initcap=0, max=0),
            dict(entry="conn", initcap=300, max=0), dict(entry="conn", initcap=0, max=5000), dict(entry="conn", initcap=0, max=100000)]
    if not q:
        cfgs += [dict(entry="read", initcap=0, max=4096), dict(entry="read", initcap=0, max=70000), dict(entry="conn", initcap=0, max=9000)]
    HUGE = 2000000000   # stands for math.MaxInt in the driver: "no limit"
    cfgs += [dict(entry="read", initcap=0, max=HUGE), dict(entry="conn", initcap=0, max=HUGE)]
    for i, c in enumerate(cfgs):
        limit = max(c["initcap"], c["max"] if (c["max"] > 0 or c["initcap"] > 0) else 65536)
        streams = scan_streams(limit, not q)
        if limit >= HUGE:
            streams = [dict(units=[dict(b=b, e=e, c=0) for b, e in sq], tail=dict(kind=k, n=n))
                       for sq in ([(0, 16)], [(1, 4096), (0, 20)], [(5, 70000), (0, 16)]) for k, n in (("none", 0), ("event", 20), ("line", 30))]
        consts = dict(Cfgs=Raw("{" + core.tla_value(c) + "}"),
                      Streams=Raw("{" + ", ".join(core.tla_value(s) for s in streams) + "}"),
                      Policies=Raw(("{0}" if limit > 70000 else "{0, 1000}") if q else "{0, 1000, 4096, 333}"))
        name = "Scanner%d" % i
        d = core.write_mc(ctx, name, "Scanner", consts, invariants=["Bounded", "ReadAhead", "TooLongOnlyIfOversized", "Complete", "Export"],
                          properties=["Variant"], deadlock=True)
        r = core.run_tlc(ctx, d, name, timeout=3000)
        res = drive_stream_generic(ctx, "scan", r.stdout_path, name, agg)
    cov = {
        "states": ctx.states, "transitions": ctx.transitions,
        "traces_validated_against_impl": agg["behaviours"],
        "samples": agg["samples"][:4],
        "evaluations": agg["evaluations"], "distinct_nontrivial": agg["distinct"],
        "rule": "streams of <= %d units (blank run of 0/1/5 bytes + event) with sizes around 4 KiB, 8 KiB and the limit (limit-1, limit+1, 2*limit+5), "
                "ending in nothing / blank lines / an unterminated line / a pending event / an endless line / endless blank lines / an oversized pending event, "
                "x %d limit settings through ReadConfig.MaxEventSize and Connection.Buffer x read policies; each replayed over a counting reader under 3-4 "
                "chunkings x EOF with/without data; non-trivial = behaviours ending in ErrTooLong or with more than one unit" % (2 if q else 3, len(cfgs)),
        "exhaustive": True, "real_code_disagreements": agg["n_violations"], "notes": agg["notes"],
    }
    core.write_evidence(ctx, "model_checking", cov, [
        "bufio.Scanner is modelled only as far as go-sse relies on it (buffer growth 4096*2^k capped at the limit, compaction, ErrTooLong when full)",
        "a unit of exactly the limit may go either way (only boundedness and intactness are demanded for it)",
        "memory is observed as bytes pulled from the reader beyond the end of the last delivered event",
    ])


def drive_stream_generic(ctx, cmd, tlc_out, tag, agg):
    beh = os.path.join(ctx.work, "beh-%s.ndjson" % tag)
    n = core.extract_exports(tlc_out, beh, dedupe=True)
    if n == 0:
        raise core.ToolFailure("TLC exported no behaviours (%s)" % tag)
    resp = os.path.join(ctx.work, "res-%s.json" % tag)
    core.run_driver(ctx, [cmd, "-in", beh, "-out", resp], timeout=3000)
    res = core.read_json(resp)
    os.remove(beh)
    for v in res["violations"]:
        core.report(ctx, v["what"], v["detail"], v["signature"])
    core.log("%s/%s: %d behaviours, %d evaluations, signatures %s notes %s" % (ctx.pid, tag, res["behaviours"], res["evaluations"],
                                                                             res["notes"].get("violation_signatures"), {k: v for k, v in res["notes"].items() if k != "violation_signatures"}))
    agg["evaluations"] += res["evaluations"]
    agg["distinct"] += res["distinct_nontrivial"]
    agg["behaviours"] += res["behaviours"]
    agg["samples"] += res["samples"][:1]
    agg["n_violations"] += res["n_violations"]
    for k, v in res["notes"].items():
        if isinstance(v, int):
            agg["notes"][k] = agg["notes"].get(k, 0) + v
    return res
