"""C02, C14, C15, C19 (Message.tla, MessageTrace.tla): builder, encoder, decoder, field values, clones."""
import itertools
import json
import os

from . import core, p_stream
from .core import Raw


def all_strs(alphabet, maxlen, minlen=0):
    out = []
    for n in range(minlen, maxlen + 1):
        out += [list(t) for t in itertools.product(alphabet, repeat=n)]
    return out


def sset(seqs):
    return Raw("{" + ", ".join(core.tla_value(list(s)) for s in seqs) + "}")


def strset(xs):
    return Raw("{" + ", ".join(json.dumps(x) for x in xs) + "}")


HOSTILE = ["CR", "LF", "COLON", "SP", "NUL", "BOM", "id", "x"]
X = ["x"]
LOOKALIKE = ["id", "COLON", "SP", "x"]                       # "id: x" as a payload
INJECT = ["x", "LF", "LF", "data", "COLON", "SP", "y"]       # tries to end the event and start another
INJECT2 = ["x", "CR", "id", "COLON", "d1"]
ALL_ROUTES = ["new", "must", "text", "json", "scan_s", "scan_b"]


def tlc_message(ctx, name, *, data=(), comments=(), ids=(), types=(), routes=("new",), texts=(), retries=(), max_msgs=1, max_ops=3,
                max_appends=1, any_target=False, cap_clone=True, view_hist=False, auto_data=False, field_once=True, invariants=None, timeout=1800, expect_violation=False, export=True):
    consts = dict(DataStrs=sset(data), CommentStrs=sset(comments), IdStrs=sset(ids), TypeStrs=sset(types), Routes=strset(routes),
                  TextStrs=sset(texts), RetryClasses=strset(retries), MaxMsgs=max_msgs, MaxOps=max_ops, MaxAppends=max_appends,
                  AnyTarget=any_target, CapClone=cap_clone, ViewHist=view_hist, AutoData=auto_data, FieldOnce=field_once)
    invs = invariants if invariants is not None else ["NoInjection", "ChunksSingleLine", "FieldsSingleLine", "RoundTrip", "NoAliasing"]
    d = core.write_mc(ctx, name, "Message", consts, invariants=list(invs) + (["Export"] if export else []), view="View")
    return core.run_tlc(ctx, d, name, timeout=timeout, expect_violation=expect_violation)


def drive_message(ctx, tlc_out, tag, agg, *, every=1, faults=True, validate=True):
    beh = os.path.join(ctx.work, "beh-%s.ndjson" % tag)
    n = core.extract_exports(tlc_out, beh)
    if n == 0:
        raise core.ToolFailure("TLC exported no behaviours (%s)" % tag)
    resp = os.path.join(ctx.work, "res-%s.json" % tag)
    cases = os.path.join(ctx.work, "cases-%s.ndjson" % tag)
    # the spec-side validation of real encodings costs ~1 ms per case in one TLC process: keep it below ~40k cases
    every = max(every, -(-n // 40000))
    args = ["message", "-in", beh, "-out", resp, "-table", p_stream.bytes_table(ctx), "-cases", cases, "-every", every]
    if not faults:
        args.append("-faults=false")
    core.run_driver(ctx, args, timeout=3000)
    res = core.read_json(resp)
    os.remove(beh)
    for v in res["violations"]:
        core.report(ctx, v["what"], v["detail"], v["signature"])
    ncases = res["notes"].get("trace_cases", 0)
    if validate and ncases:
        ok, rej, r = core.validate_trace(ctx, "MT_" + tag, "MessageTrace", "CASES", cases)
        agg["trace_cases"] += ncases
        if not ok:
            core.report(ctx, "MessageTrace.tla rejects what the real encoder wrote: %s" % (rej or "")[:1500],
                        {"trace_spec": "MessageTrace", "rejected": rej}, "message:trace-rejected")
    core.log("%s/%s: %d behaviours, %d evaluations, %d trace cases, signatures %s" % (
        ctx.pid, tag, res["behaviours"], res["evaluations"], ncases, res["notes"].get("violation_signatures")))
    agg["evaluations"] += res["evaluations"]
    agg["distinct"] += res["distinct_nontrivial"]
    agg["behaviours"] += res["behaviours"]
    agg["samples"] += res["samples"][:2]
    agg["n_violations"] += res["n_violations"]
    for k, v in res["notes"].items():
        if isinstance(v, int):
            agg["notes"][k] = agg["notes"].get(k, 0) + v
    return res


def new_agg():
    return dict(evaluations=0, distinct=0, behaviours=0, samples=[], n_violations=0, notes={}, trace_cases=0)


def evidence(ctx, agg, rule, assumptions, exhaustive=True):
    cov = {
        "states": ctx.states, "transitions": ctx.transitions,
        "traces_validated_against_impl": agg["behaviours"] + agg["trace_cases"],
        "samples": agg["samples"][:4],
        "evaluations": agg["evaluations"], "distinct_nontrivial": agg["distinct"],
        "behaviours_replayed_on_real_code": agg["behaviours"], "real_encodings_validated_by_spec": agg["trace_cases"],
        "rule": rule, "exhaustive": exhaustive, "real_code_disagreements": agg["n_violations"], "notes": agg["notes"],
    }
    core.write_evidence(ctx, "model_checking", cov, assumptions)


def plan_payloads(ctx, q):
    """(tag, kwargs) generation configs shared by C02 / C15."""
    L = 3 if q else 4
    ids2 = [X, LOOKALIKE, ["x", "NUL"], []]
    return [
        ("data", dict(data=all_strs(HOSTILE, L), ids=[X, LOOKALIKE], types=[X], max_ops=3, max_appends=1)),
        ("appends", dict(data=all_strs(HOSTILE[:6] + ["x"], 2), comments=all_strs(["CR", "LF", "COLON", "SP", "x", "data"], 2), max_ops=2, max_appends=2)),
        # every input matters here, also those that leave the value unset: explore every operation sequence
        ("ids", dict(data=[X], ids=all_strs(HOSTILE, L), types=[], max_ops=2, max_appends=1, view_hist=True)),
        ("types", dict(data=[X], ids=[], types=all_strs(HOSTILE, L), max_ops=2, max_appends=1, view_hist=True)),
        # bytes / runes that Unicode-aware helpers treat as space or line break: ordinary payload here (no extra line, nothing trimmed)
        ("unispace", dict(data=all_strs(["LF", "SP", "x", "VT", "FORMFEED", "NEL", "NBSP", "LS"], L), ids=[["x", "NEL"], ["LS", "x"], ["VT"]], types=[["NBSP", "x"], ["FORMFEED"]],
                          max_ops=3, max_appends=1)),
        # lines of 61 .. 127+ bytes (F61 = 61 bytes): nothing about a line depends on its length
        ("longlines", dict(data=[list(t) for n in range(1, 9) for t in itertools.product(["F61", "x"], repeat=n) if t.count("F61") <= 2 and list(t) == sorted(t, key=lambda z: z != "F61")],
                           comments=[["F61", "F61"] + ["x"] * k for k in (3, 4, 5)], ids=[X], types=[X], max_ops=2, max_appends=1)),
        ("families", dict(data=[X, INJECT, INJECT2, ["LF"], []], comments=[["x", "LF", "data", "COLON", "y"]], ids=ids2[:3], types=[X, ["data"]],
                          retries=["ms1", "neg"], max_msgs=2 if q else 3, max_ops=2, max_appends=1)),
    ]


def run_C02(ctx):
    agg = new_agg()
    q = ctx.quick
    # every Retry class next to data, ID and type: invisible in the event, and no obstacle to go-sse's own decoder
    plan = plan_payloads(ctx, q) + [("retries", dict(data=[X, []], ids=[X], types=[X], retries=["neg", "zero", "subms", "ms1", "ms999", "s1", "max"], max_ops=3, max_appends=1))]
    for tag, kw in plan:
        r = tlc_message(ctx, "Msg_" + tag, **kw)
        drive_message(ctx, r.stdout_path, tag, agg, every=1 if tag in ("families", "appends") else 3, faults=False)
    evidence(ctx, agg,
             "messages built through the public API from every string of <= %d tokens over {CR, LF, COLON, SP, NUL, BOM, 'id', 'x'} as data, as ID, as type "
             "(others fixed), every pair of AppendData/AppendComment strings of <= 2 tokens, and families of <= %d hostile messages in every order; TLC checks "
             "NoInjection with StreamCore as the standard parser on the canonical encoding; the real messages' bytes are decoded by sse.Read and compared with the "
             "spec's events, and (every 1st-3rd behaviour) tokenised and decoded by the spec itself (MessageTrace.tla); non-trivial = behaviours that yield an event "
             "or have more than one message" % (3 if q else 4, 2 if q else 3),
             ["no byte-exact wire format is demanded: only what decoders see", "an ID containing NUL is expected to be ignored by the decoder (WHATWG rule)",
              "token-level = byte-level interpretation under Bytes.tla's ASSUMEs"])


def run_C15(ctx):
    agg = new_agg()
    q = ctx.quick
    plan = plan_payloads(ctx, q)
    plan.append(("retries", dict(data=[X, []], ids=[X], types=[X], retries=["neg", "zero", "subms", "ms1", "ms999", "s1", "max"], max_ops=3, max_appends=1)))
    for tag, kw in plan:
        if q and tag in ("ids", "types"):
            kw = dict(kw)
            kw["ids" if tag == "ids" else "types"] = all_strs(HOSTILE, 2)
        r = tlc_message(ctx, "Msg_" + tag, **kw)
        drive_message(ctx, r.stdout_path, tag, agg, every=5, faults=True)
    evidence(ctx, agg,
             "the messages of C02's generation plus every Retry class (negative, zero, sub-millisecond, 1 ms, 999 ms, 1 s, max int64); for each: WriteTo / MarshalText / "
             "String compared, UnmarshalText(MarshalText(m)) compared with the spec's Unmarshal(Wire(m)) and re-encoded, and WriteTo run against a writer that fails at "
             "every individual Write call accepting 0, half or all-but-one of the bytes; the recorded Write calls are validated by MessageTrace.tla (byte accounting); "
             "evaluations = messages + faulted WriteTo runs",
             ["the number and sizes of Write calls are the code's choice: logged and bound, not prescribed", "IDs containing NUL are outside the round-trip clause"])


def run_C14(ctx):
    agg = new_agg()
    q = ctx.quick
    L = 3 if q else 4
    strs = all_strs(["CR", "LF", "COLON", "SP", "NUL", "x", "id"], L)
    r = tlc_message(ctx, "Msg_routes", ids=strs, types=strs, routes=ALL_ROUTES + ["header"], max_msgs=1, max_ops=1, max_appends=0, view_hist=True)
    drive_message(ctx, r.stdout_path, "routes", agg, every=7, faults=False)
    texts = all_strs(["id", "event", "COLON", "SP", "x", "LF", "CR", "NUL"], 4 if q else 5, 1)
    r = tlc_message(ctx, "Msg_texts", texts=texts, max_msgs=1, max_ops=0, max_appends=0, view_hist=True)
    drive_message(ctx, r.stdout_path, "texts", agg, every=11, faults=False)
    # a value set through one route, then replaced through another; and carried by a message with payload
    r = tlc_message(ctx, "Msg_carried", data=[X, INJECT], ids=[X, ["x", "LF", "data", "COLON", "SP", "y"], ["CR"], []],
                    types=[X, ["x", "CR", "LF", "id", "COLON", "d1"]], routes=ALL_ROUTES, max_msgs=1, max_ops=2, max_appends=1, view_hist=True, field_once=False)
    drive_message(ctx, r.stdout_path, "carried", agg, every=3, faults=False)
    extra = os.path.join(ctx.work, "res-fields-extra.json")
    core.run_driver(ctx, ["fields-extra", "-out", extra])
    res = core.read_json(extra)
    for v in res["violations"]:
        core.report(ctx, v["what"], v["detail"], v["signature"])
    agg["evaluations"] += res["evaluations"]
    evidence(ctx, agg,
             "every string of <= %d tokens over {CR, LF, COLON, SP, NUL, 'x', 'id'} through every construction route of EventID and EventType (NewID/NewType, ID/Type, "
             "UnmarshalText, UnmarshalJSON, Scan(string), Scan([]byte), the Last-Event-Id header through Upgrade) and every wire text of <= %d tokens through "
             "Message.UnmarshalText; observed IsSet/String/error/panic against the spec's FieldFrom, and the wire form of a message carrying the value decoded by "
             "sse.Read and by the spec; plus JSON documents null / non-string / escaped line breaks and Scan(nil / other type)" % (L, 4 if q else 5),
             ["JSON inputs are valid UTF-8 (json.Marshal of the string; escaped variants in the extra sub-check)"])


def run_C19(ctx):
    agg = new_agg()
    q = ctx.quick
    common = dict(data=[], comments=[], ids=[], types=[], retries=[], any_target=True, auto_data=True)
    # sensitivity: without the capacity cap in Clone the slice model must show aliasing
    r = tlc_message(ctx, "Msg_clone_nocap", max_msgs=3, max_ops=3, max_appends=3, cap_clone=False, invariants=["NoAliasing"],
                    expect_violation=True, export=False, **common)
    if r.violated != "NoAliasing":
        raise core.ToolFailure("sensitivity: Clone without the capacity cap should violate NoAliasing, TLC reported %r" % r.violated)
    n = 4 if q else 5
    r = tlc_message(ctx, "Msg_clones", max_msgs=3, max_ops=n, max_appends=n, **common)
    drive_message(ctx, r.stdout_path, "clones", agg, every=9, faults=False)
    # a member refilled by UnmarshalText (two data lines and a comment) after it was cloned: the clones keep their chunks
    r = tlc_message(ctx, "Msg_clone_refill", texts=[["data", "COLON", "y", "LF", "COLON", "x", "LF", "data", "COLON", "d1", "LF", "LF"]],
                    max_msgs=3, max_ops=2, max_appends=2, **common)
    drive_message(ctx, r.stdout_path, "clonerefill", agg, every=9, faults=False)
    # the fields a clone copies, and assignments to either side afterwards
    r = tlc_message(ctx, "Msg_clone_fields", ids=[X, ["y"]], types=[X], retries=["ms1", "s1"], max_msgs=2, max_ops=2, max_appends=1,
                    any_target=True, auto_data=True)
    drive_message(ctx, r.stdout_path, "clonefields", agg, every=3, faults=False)
    pub = os.path.join(ctx.work, "res-publish-same.json")
    core.run_driver(ctx, ["publish-same", "-out", pub])
    res = core.read_json(pub)
    for v in res["violations"]:
        core.report(ctx, v["what"], v["detail"], v["signature"])
    agg["evaluations"] += res["evaluations"]
    agg["notes"]["publish_same_message_runs"] = res["evaluations"]
    evidence(ctx, agg,
             "every family of <= 3 messages reachable by <= %d operations per member (AppendData of a one-line and a two-line string, AppendComment, ID assignment, Clone of "
             "any member) applied to any member in any order; TLC checks NoAliasing on a model of Go slices (backing array, len, cap; append in place when len < cap) - "
             "and that it fails without Clone's capacity cap; every family is rebuilt with real Messages and every member's encoding decoded and compared with the "
             "value-semantics expectation; plus one Message published repeatedly through both replayers, both ID modes and Joe" % (3 if q else 4),
             ["Go's append growth for the chunk slice (1, 2, 4, 8, ...) is modelled; the verdict only uses the members' encodings"])
