"""vcheck selftest: demonstrates that each binding is live — a corrupted expectation (direction A) or a
corrupted recorded field / removed event (direction B) must be rejected.  A check whose self-test does not
reject the corruption decides nothing about the code."""
import json
import os
import random

from . import core, p_replay, p_stream, p_client, p_message, p_joe
from .core import Raw


def _lines(path):
    with open(path) as f:
        return f.read().splitlines()


def _write(path, lines):
    with open(path, "w") as f:
        f.write("\n".join(lines) + "\n")


def _driver_rejects(ctx, args, resp):
    core.run_driver(ctx, args)
    return core.read_json(resp)["n_violations"] > 0


def st_replay(ctx):
    r = p_replay.tlc_replay(ctx, "ST_Replay", p_replay.finite_cfgs([3], 1), max_now=0, max_bad=0)
    beh = os.path.join(ctx.work, "st-replay.ndjson")
    core.extract_exports(r.stdout_path, beh)
    lines = _lines(beh)
    resp = os.path.join(ctx.work, "st-replay.json")
    clean = not _driver_rejects(ctx, ["replay", "-in", beh, "-out", resp], resp)
    # corrupt: in the last behaviour, claim that a probe that replays something must replay nothing
    b = json.loads(lines[-1])
    for p in b["probes"]:
        if any(len(a) > 0 for a in p["allowed"]):
            p["allowed"] = [[]]
            break
    lines[-1] = json.dumps(b)
    _write(beh, lines)
    return clean and _driver_rejects(ctx, ["replay", "-in", beh, "-out", resp], resp)


def st_stream(ctx):
    r = p_stream.tlc_stream(ctx, "ST_Stream", [], p_stream.LINES[:6], 2, machine=False)
    beh = os.path.join(ctx.work, "st-stream.ndjson")
    core.extract_exports(r.stdout_path, beh, dedupe=True)
    lines = _lines(beh)
    resp = os.path.join(ctx.work, "st-stream.json")
    args = ["stream", "-in", beh, "-out", resp, "-table", p_stream.bytes_table(ctx), "-pairs", 0]
    clean = not _driver_rejects(ctx, args, resp)
    for i, l in enumerate(lines):
        b = json.loads(l)
        if b["clean"]["read"]["out"]:
            b["clean"]["read"]["out"][0]["data"].append("y")       # expect another byte of data
            lines[i] = json.dumps(b)
            break
    _write(beh, lines)
    return clean and _driver_rejects(ctx, args, resp)


def st_client(ctx):
    r = p_client.tlc_client(ctx, "ST_Client", p_client.cfgs([0]), [p_client.EID1], ["clean"], ["transport", "stream"], 2, False)
    beh = os.path.join(ctx.work, "st-client.ndjson")
    core.extract_exports(r.stdout_path, beh, dedupe=True)
    lines = _lines(beh)
    resp = os.path.join(ctx.work, "st-client.json")
    args = ["client", "-in", beh, "-out", resp, "-table", p_stream.bytes_table(ctx), "-focus", "result,header,events,waits", "-segs", "whole"]
    clean = not _driver_rejects(ctx, args, resp)
    for i, l in enumerate(lines):
        b = json.loads(l)
        hs = [k for k, q in enumerate(b["reqs"]) if q["hdr"][0] == "value"]
        if hs:
            b["reqs"][hs[0]]["hdr"] = ["absent"]                    # claim the header must be absent
            lines[i] = json.dumps(b)
            break
    _write(beh, lines)
    return clean and _driver_rejects(ctx, args, resp)


def st_scan(ctx):
    c = dict(entry="read", initcap=0, max=100)
    streams = p_stream.scan_streams(100, False)[:40]
    consts = dict(Cfgs=Raw("{" + core.tla_value(c) + "}"), Streams=Raw("{" + ", ".join(core.tla_value(s) for s in streams) + "}"), Policies=Raw("{0}"))
    d = core.write_mc(ctx, "ST_Scanner", "Scanner", consts, invariants=["Bounded", "Complete", "Export"], deadlock=True)
    r = core.run_tlc(ctx, d, "ST_Scanner")
    beh = os.path.join(ctx.work, "st-scan.ndjson")
    core.extract_exports(r.stdout_path, beh, dedupe=True)
    lines = _lines(beh)
    resp = os.path.join(ctx.work, "st-scan.json")
    args = ["scan", "-in", beh, "-out", resp]
    clean = not _driver_rejects(ctx, args, resp)
    for i, l in enumerate(lines):
        b = json.loads(l)
        if b["status"] == "eof" and b["delivered"] > 0:
            b["delivered"] -= 1                                     # claim one event fewer is delivered
            lines[i] = json.dumps(b)
            break
    _write(beh, lines)
    return clean and _driver_rejects(ctx, args, resp)


def st_message(ctx):
    r = p_message.tlc_message(ctx, "ST_Message", data=[["x"], ["x", "LF", "y"]], ids=[["x"]], types=[["x"]], max_ops=3, max_appends=1)
    beh = os.path.join(ctx.work, "st-msg.ndjson")
    core.extract_exports(r.stdout_path, beh)
    resp = os.path.join(ctx.work, "st-msg.json")
    cases = os.path.join(ctx.work, "st-msg-cases.ndjson")
    args = ["message", "-in", beh, "-out", resp, "-table", p_stream.bytes_table(ctx), "-cases", cases, "-every", 1]
    clean = not _driver_rejects(ctx, args, resp)
    ok_clean, _, _ = core.validate_trace(ctx, "ST_MT1", "MessageTrace", "CASES", cases)
    # direction B: corrupt the recorded bytes of one encoding (an extra blank line inside an event with two data lines)
    lines = _lines(cases)
    done = False
    for i, l in enumerate(lines):
        c = json.loads(l)
        if c["kind"] == "wire" and c["got"].count("data") >= 2:
            k = len(c["got"]) - 1 - c["got"][::-1].index("data")
            c["got"].insert(k, "LF")
            lines[i] = json.dumps(c)
            done = True
            break
    _write(cases, lines)
    ok_bad, _, _ = core.validate_trace(ctx, "ST_MT2", "MessageTrace", "CASES", cases)
    # direction A: corrupt an expectation
    bl = _lines(beh)
    for i, l in enumerate(bl):
        b = json.loads(l)
        if b["read"]:
            b["read"][0]["data"] = b["read"][0]["data"] + ["y"]
            bl[i] = json.dumps(b)
            break
    _write(beh, bl)
    return clean and ok_clean and done and (not ok_bad) and _driver_rejects(ctx, args, resp)


def st_joe(ctx):
    agg = p_joe.new_agg()
    traces = p_joe.collect_traces(ctx, "mix", 40, "st", agg, chunk=40)
    tr = traces[0]
    ok_clean, _, _ = p_joe.validate_joe_trace(ctx, tr, "st_clean")
    lines = _lines(tr)
    results = []
    # (1) remove one flush event: a Send not followed by a Flush must be rejected
    idx = [i for i, l in enumerate(lines) if '"e":"flush"' in l and '"ok":true' in l]
    if idx:
        bad = lines[:idx[len(idx) // 2]] + lines[idx[len(idx) // 2] + 1:]
        p = tr + ".noflush"
        _write(p, bad)
        ok, _, _ = p_joe.validate_joe_trace(ctx, p, "st_noflush")
        results.append(not ok)
    # (2) a send to another subscriber than the one recorded
    idx = [i for i, l in enumerate(lines) if '"e":"send"' in l]
    if idx:
        k = idx[len(idx) // 2]
        e = json.loads(lines[k])
        e["s"] = "s2" if e["s"] != "s2" else "s0"
        bad = list(lines)
        bad[k] = json.dumps(e, separators=(",", ":"))
        p = tr + ".wrongsub"
        _write(p, bad)
        ok, _, _ = p_joe.validate_joe_trace(ctx, p, "st_wrongsub")
        results.append(not ok)
    # (3) Subscribe returning nil although an error was reported to it
    idx = [i for i, l in enumerate(lines) if '"e":"ret.sub"' in l and '"v":"err"' in l]
    if idx:
        k = idx[0]
        bad = list(lines)
        bad[k] = bad[k].replace('"v":"err"', '"v":"nil"')
        p = tr + ".nilret"
        _write(p, bad)
        ok, _, _ = p_joe.validate_joe_trace(ctx, p, "st_nilret")
        results.append(not ok)
    if not (ok_clean and len(results) >= 2 and all(results)):
        core.log("selftest joe: clean trace accepted=%s, corrupted traces rejected=%s" % (ok_clean, results))
    return ok_clean and len(results) >= 2 and all(results)


def st_steer(ctx):
    """Direction A for Joe: TLC's behaviours are followed by the real code (some of them step by step), the recorded trace is
    accepted, and the same trace with one event moved before the step that enables it is rejected."""
    agg = p_joe.new_agg()
    cases, total, per = p_joe.steer_cases(ctx, ["tiny@View1"], 10, "st")
    trace, crashed, blocked = p_joe.run_steered(ctx, cases, total, 0, "st-steer")
    if crashed or blocked:
        return False
    stats = core.read_json(trace + ".stats")
    ok_clean, _, _ = p_joe.validate_joe_trace(ctx, trace, "st_steer_clean")
    lines = _lines(trace)
    # move the first loop.register in front of the loop.sub that precedes it: a registration without a subscription request
    k = next(i for i, l in enumerate(lines) if '"e":"loop.register"' in l)
    j = max(i for i in range(k) if '"e":"loop.sub"' in lines[i])
    bad = lines[:j] + [lines[k]] + lines[j:k] + lines[k + 1:]
    p = trace + ".reordered"
    _write(p, bad)
    ok_bad, _, _ = p_joe.validate_joe_trace(ctx, p, "st_steer_bad")
    if not (ok_clean and not ok_bad and stats.get("Exact", 0) > total // 4):
        core.log("selftest steer: clean accepted=%s, reordered accepted=%s, stats=%s" % (ok_clean, ok_bad, stats))
    return ok_clean and not ok_bad and stats.get("Exact", 0) > total // 4


TESTS = {
    "replay": (st_replay, ["C08", "C09", "C18"]),
    "stream": (st_stream, ["C01", "C11"]),
    "client": (st_client, ["C10", "C11", "C12"]),
    "scan": (st_scan, ["C20"]),
    "message": (st_message, ["C02", "C14", "C15", "C19"]),
    "joe": (st_joe, ["C03", "C04", "C06", "C07", "C17"]),
    "steer": (st_steer, ["C03", "C04", "C06", "C07", "C17"]),
}


def run(ids):
    bad = 0
    for name, (fn, props) in TESTS.items():
        if ids and name not in ids and not set(ids) & set(props):
            continue
        ctx = core.Ctx("selftest-" + name, "quick", 1)
        try:
            ok = fn(ctx)
        except core.ToolFailure as e:
            core.log(str(e)[:2000])
            ok = False
        finally:
            ctx.cleanup()
        print("selftest %-8s (%s): %s" % (name, " ".join(props), "binding rejects the corruption" if ok else "FAILED"))
        bad += 0 if ok else 1
    return 1 if bad else 0
