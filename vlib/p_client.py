"""C10, C11, C12 (Client.tla) and C13 (Dispatch.tla): the client side."""
import json
import os

from . import core, p_stream
from .core import Raw

P = ["data", "COLON", "SP", "x", "LF", "LF"]          # one complete event
IDV = ["id", "COLON", "d1", "LF"]


def tok_seqs(seqs):
    return Raw("{" + ", ".join(core.tla_value(list(s)) for s in seqs) + "}")


def strs(xs):
    return Raw("{" + ", ".join(json.dumps(x) for x in xs) + "}")


def cfgs(max_retries, *, initial=200000, mul=(1, 1), max_interval=0, jitter=("default",), body=("nobody",)):
    out = []
    for mr in max_retries:
        for j in jitter:
            for b in body:
                out.append(dict(maxRetries=mr, initial=initial, mulNum=mul[0], mulDen=mul[1], maxInterval=max_interval, jitter=j, body=b))
    return out


def tlc_client(ctx, name, cfg_list, bodies, ends, outcomes, max_attempts, cancel_in_wait, *, timeout=1800, simulate=None, depth=None, max_connects=1):
    consts = dict(Cfgs=Raw("{" + ", ".join(core.tla_value(c) for c in cfg_list) + "}"), Bodies=tok_seqs(bodies), Ends=strs(ends),
                  Outcomes=strs(outcomes), MaxAttempts=max_attempts, CancelInWait=cancel_in_wait, MaxConnects=max_connects)
    d = core.write_mc(ctx, name, "Client", consts,
                      invariants=["Reason", "NoRetryAfterPermanent", "RetryCount", "Capped", "HeaderRule", "BodyRule", "Export"])
    return core.run_tlc(ctx, d, name, timeout=timeout, simulate=simulate, depth=depth, seed=ctx.seed if simulate else None,
                        workers=4 if simulate else None)


def drive_client(ctx, tlc_out, tag, focus, segs, agg, beyond=False):
    beh = os.path.join(ctx.work, "beh-%s.ndjson" % tag)
    n = core.extract_exports(tlc_out, beh, dedupe=True)
    if n == 0:
        raise core.ToolFailure("TLC exported no behaviours (%s)" % tag)
    resp = os.path.join(ctx.work, "res-%s.json" % tag)
    core.run_driver(ctx, ["client", "-in", beh, "-out", resp, "-table", p_stream.bytes_table(ctx), "-focus", focus, "-segs", segs], timeout=3000)
    res = core.read_json(resp)
    os.remove(beh)
    for v in res["violations"]:
        if beyond:
            core.drift(ctx, v["what"])
        else:
            core.report(ctx, v["what"], v["detail"], v["signature"])
    core.log("%s/%s: %d behaviours, %d evaluations, signatures %s" % (ctx.pid, tag, res["behaviours"], res["evaluations"],
                                                                    res["notes"].get("violation_signatures")))
    agg["evaluations"] += res["evaluations"]
    agg["distinct"] += res["distinct_nontrivial"]
    agg["behaviours"] += res["behaviours"]
    agg["samples"] += res["samples"][:2]
    if not beyond:
        agg["n_violations"] += res["n_violations"]
    return res


def new_agg():
    return dict(evaluations=0, distinct=0, behaviours=0, samples=[], n_violations=0, notes={})


def client_evidence(ctx, agg, rule, assumptions, exhaustive):
    cov = {
        "states": ctx.states, "transitions": ctx.transitions,
        "traces_validated_against_impl": agg["behaviours"],
        "samples": agg["samples"][:4],
        "evaluations": agg["evaluations"], "distinct_nontrivial": agg["distinct"],
        "rule": rule, "exhaustive": exhaustive, "real_code_disagreements": agg["n_violations"], "notes": agg["notes"],
    }
    core.write_evidence(ctx, "model_checking", cov, assumptions)


TAILS = [
    [],                                            # empty body
    ["LF"],                                        # just a blank line
    P,                                             # ends on an event boundary
    P + ["LF"],                                    # trailing blank line
    P + ["COLON", "x", "LF"],                      # trailing comment
    P + ["x", "LF"],                               # trailing unknown field
    P + ["data", "COLON", "y"],                    # ends in mid-line
    P + ["data", "COLON", "y", "LF"],              # terminated pending event
    ["BOM"],
    ["COLON", "x", "LF", "CR", "LF"],              # comment only
    P + ["id", "COLON", "d1", "CR"],               # pending id, CR-terminated
]


def run_C11(ctx):
    agg = new_agg()
    q = ctx.quick
    r = tlc_client(ctx, "ClientReasons", cfgs([-1, 0, 1, 2]), TAILS, ["clean", "error", "cancel"],
                   ["transport", "reject", "reject_temp", "stream", "cancel_do"], 2 if q else 3, True)
    drive_client(ctx, r.stdout_path, "reasons", "result,events", "whole,bytewise,mid", agg)
    # retry count is per run of consecutive failures (a successful connection starts a fresh run), and errors that merely look
    # like context errors (a transport's own deadline) while the request's context is alive are ordinary retryable errors
    r = tlc_client(ctx, "ClientRuns", cfgs([-1, 1, 2]), [P, P + ["data", "COLON", "y"], P + P], ["clean", "errctx", "errwrapeof", "erriou", "cancel_eof", "cancel_cb"],
                   ["transport", "transport_ctx", "stream"], 4 if q else 5, False)
    drive_client(ctx, r.stdout_path, "runs", "result,events,waits", "whole", agg)
    # Connect called again on the same Connection after retries were exhausted: the new call has the full number of retries again
    r = tlc_client(ctx, "ClientReasonsReconnect", cfgs([1, 2]), [P], ["clean", "error"], ["transport", "stream", "reject"], 4 if q else 5, False, max_connects=2)
    drive_client(ctx, r.stdout_path, "reasons-reconnect", "result,events", "whole", agg)
    r = tlc_client(ctx, "ClientBodyReset", cfgs([0, 1], body=("nil", "nobody", "getbody", "nogetbody", "failgetbody")), [P, P + ["data", "COLON", "y"]],
                   ["clean", "error"], ["transport", "stream"], 2, False)
    drive_client(ctx, r.stdout_path, "bodyreset", "result,body", "whole", agg)
    # what "the response validator fails" means when none is configured: DefaultValidator as a function of status and Content-Type
    d = core.write_mc(ctx, "ValidatorTable", "Validator", {}, invariants=["OnlyEventStreams", "SomeAccepted", "Export"])
    rv = core.run_tlc(ctx, d, "ValidatorTable", workers=1, timeout=300)
    vt = os.path.join(ctx.work, "beh-validator.ndjson")
    core.extract_exports(rv.stdout_path, vt)
    vres = os.path.join(ctx.work, "res-validator.json")
    core.run_driver(ctx, ["validator", "-in", vt, "-out", vres], timeout=300)
    vr = core.read_json(vres)
    for v in vr["violations"]:
        core.drift(ctx, v["what"])      # C11 takes the validator as given: what the default one accepts is beyond its text
    agg["evaluations"] += vr["evaluations"]
    agg["behaviours"] += vr["behaviours"]
    agg["notes"]["default_validator_cases"] = vr["behaviours"]
    # the same ways of ending through sse.Read and a single-attempt Connection, with the identity of the error checked
    r = p_stream.tlc_stream(ctx, "StreamTails", [], p_stream.LINES, 3 if q else 4, machine=False, timeout=3000)
    sres = p_stream.drive_stream(ctx, r.stdout_path, "tails", 0, agg, extra=["-errident"])
    client_evidence(ctx, agg,
                    "every history of <= %d scripted attempts (transport failure, rejected response, cancellation inside Do, or a stream with one of "
                    "11 tails ending cleanly / by a read error / by cancellation inside the body read; cancellation during the wait) x MaxRetries in "
                    "{-1,0,1,2}, replayed on a real Connection with a scripted http.RoundTripper under 3 read segmentations; plus every body kind for the "
                    "request-reset failures; plus every stream of <= %d line templates through sse.Read and a one-attempt Connection with the error's "
                    "identity checked; non-trivial = histories with more than one step or at least one event" % (2 if q else 3, 3 if q else 4),
                    ["the transport is scripted (no sockets): cancellation surfaces as the context's error from Do or from the body's Read, as net/http does",
                     "unbounded retrying (MaxRetries 0) is observed for the scripted number of attempts, after which the context is cancelled"],
                    exhaustive=True)


# ---------------------------------------------------------------------------------------------- C10
EID1 = ["id", "COLON", "d1", "LF", "data", "COLON", "x", "LF", "LF"]
EID7 = ["id", "COLON", "SP", "d07", "LF", "LF"]
EEMPTY = ["id", "COLON", "LF", "data", "COLON", "x", "LF", "LF"]
ENUL = ["id", "COLON", "x", "NUL", "LF", "data", "COLON", "x", "LF", "LF"]
ENOID = ["data", "COLON", "x", "LF", "LF"]
CUTID = ["id", "COLON", "d07", "LF", "data", "COLON", "x"]
PENDID = ["id", "COLON", "y", "LF"]

C10_BODIES = [[], EID1, EID7, EEMPTY, ENUL, ENOID, CUTID, PENDID, EID1 + ENOID, EID1 + CUTID, EID1 + ENUL, EID7 + EEMPTY, ENOID + PENDID]


def run_C10(ctx):
    agg = new_agg()
    q = ctx.quick
    r = tlc_client(ctx, "ClientHeader", cfgs([0]), C10_BODIES, ["clean", "error", "errwrapeof"], ["transport", "stream"], 3, False)
    drive_client(ctx, r.stdout_path, "header", "result,header,events", "whole,mid", agg)
    if not q:
        r = tlc_client(ctx, "ClientHeader4", cfgs([0]), C10_BODIES, ["clean", "error"], ["transport", "stream"], 4, False, timeout=3000)
        drive_client(ctx, r.stdout_path, "header4", "result,header,events", "whole", agg)
    r = tlc_client(ctx, "ClientBody", cfgs([0, 2], body=("nil", "nobody", "getbody", "nogetbody", "failgetbody")),
                   [EID1, CUTID], ["clean", "error"], ["transport", "stream", "reject"], 3, False)
    drive_client(ctx, r.stdout_path, "body", "result,header,body", "whole", agg)
    # Connect called again on the same Connection after it returned (rejected response, retries exhausted): the Connection's state persists
    r = tlc_client(ctx, "ClientReconnect", cfgs([-1, 1], body=("nobody", "getbody", "nogetbody", "failgetbody")), [EID1, ENOID, EID7], ["clean", "error"],
                   ["transport", "stream", "reject"], 3 if q else 4, False, max_connects=2 if q else 3)
    drive_client(ctx, r.stdout_path, "reconnect", "result,header,body,events", "whole", agg)
    client_evidence(ctx, agg,
                    "every history of <= %d attempts, each a transport failure or a stream from 13 bodies (events with a numeric id, an id-only event, "
                    "an empty id, an id containing NUL, no id, an event cut after its id line, a pending id line, and combinations) ending cleanly or by "
                    "a read error, replayed on a real Connection; the scripted RoundTripper records presence and value of Last-Event-ID on every request and "
                    "reads the request body to the end; plus all five body kinds x retry limits; plus histories in which Connect is called again on the same Connection after it returned; non-trivial = more than one step or an event" % (3 if q else 4),
                    ["the request given to NewConnection carries no Last-Event-ID header of its own", "MaxRetries 0 (unbounded) is observed for the scripted attempts"],
                    exhaustive=True)


# ---------------------------------------------------------------------------------------------- C12
def retry_body(val):
    return ["retry", "COLON"] + val + ["LF"] + P


C12_BODIES = [P, retry_body(["d1"]), retry_body(["SP", "d07"]), retry_body(["PLUS", "d1"]), retry_body(["x"]), retry_body([]),
              retry_body(["d1"] + ["d0"] * 12), P + ["retry", "COLON", "d1", "LF"],
              # a valid value, then fields without one on the same connection: the valid one stays in force
              retry_body(["d2"]) + ["retry", "COLON", "LF"] + P, retry_body(["d2"]) + ["retry", "LF"] + P + ["retry", "COLON", "SP", "LF"]]


def c12_cfgs(q):
    def c(mr, mul, mx, j):
        return dict(maxRetries=mr, initial=800000, mulNum=mul[0], mulDen=mul[1], maxInterval=mx * 100000, jitter=j, body="nobody")
    base = [c(0, (3, 2), 0, "none"), c(0, (2, 1), 20, "none"), c(0, (1, 1), 0, "none"), c(2, (3, 2), 12, "none"), c(3, (3, 2), 0, "none"),
            c(2, (1, 1), 0, "none"), c(1, (3, 2), 8, "none"),
            c(-1, (3, 2), 0, "none"), c(1, (2, 1), 0, "default"), c(0, (3, 2), 20, "quarter"), c(0, (3, 2), 0, "default"),
            # a multiplier beyond anything (10^13 in the driver): the product does not fit an int64, the cap still applies
            dict(maxRetries=3, initial=2000000, mulNum=2000000000, mulDen=1, maxInterval=4000000, jitter="none", body="nobody")]
    if not q:
        base += [c(3, (2, 1), 15, "quarter"), c(2, (1, 1), 0, "default"), c(0, (3, 2), 18, "none"), c(1, (3, 2), 0, "none")]
    return base


def run_C12(ctx):
    agg = new_agg()
    q = ctx.quick
    r = tlc_client(ctx, "ClientBackoff", c12_cfgs(q), C12_BODIES, ["clean"], ["transport", "stream"], 4 if q else 5, False, timeout=3000)
    drive_client(ctx, r.stdout_path, "backoff", "result,waits", "whole", agg)
    # a retry field takes effect when it is read, whether or not its block is ever dispatched (the connection dies before the blank line)
    r = tlc_client(ctx, "ClientRetryUndispatched", [dict(maxRetries=2, initial=800000, mulNum=1, mulDen=1, maxInterval=0, jitter="none", body="nobody")],
                   [["retry", "COLON", "d2", "LF"], P + ["retry", "COLON", "d3", "LF", "data", "COLON", "x"]], ["clean", "error", "erriou"], ["transport", "stream"], 3, False)
    drive_client(ctx, r.stdout_path, "retry-undispatched", "result,waits", "whole,mid", agg)
    # Connect called again on the same Connection: every call has a backoff of its own (count and interval start over)
    rcfgs = [dict(maxRetries=mr, initial=800000, mulNum=2, mulDen=1, maxInterval=0, jitter="none", body="nobody") for mr in (1, 2)]
    r = tlc_client(ctx, "ClientBackoffReconnect", rcfgs, [P, retry_body(["d1"])], ["clean"], ["transport", "stream", "reject"], 4 if q else 5, False, max_connects=2)
    drive_client(ctx, r.stdout_path, "backoff-reconnect", "result,waits", "whole", agg)
    # mergeDefaults: InitialInterval <= 0 -> 500 ms, Multiplier < 1 -> 1.5 (observed exactly with Jitter -1; real waits of 0.5 s and 0.75 s)
    dcfgs = [dict(maxRetries=2, initial=i, mulNum=m[0], mulDen=m[1], maxInterval=0, jitter="none", body="nobody") for i in (0, -1000000) for m in ((0, 1), (1, 2), (2, 1))]
    r = tlc_client(ctx, "ClientDefaults", dcfgs[:3] if q else dcfgs, [P], ["clean"], ["transport", "stream"], 3, False)
    drive_client(ctx, r.stdout_path, "defaults", "result,waits", "whole", agg, beyond=True)   # documented defaults: beyond C12's text
    elapsed = os.path.join(ctx.work, "res-elapsed.json")
    core.run_driver(ctx, ["client-elapsed", "-out", elapsed], timeout=600)
    res = core.read_json(elapsed)
    for v in res["violations"]:
        core.report(ctx, v["what"], v["detail"], v["signature"])
    agg["evaluations"] += res["evaluations"]
    agg["notes"]["max_elapsed_time_runs"] = res["evaluations"]
    client_evidence(ctx, agg,
                    "every history of <= %d attempts (failed attempt; successful connection that drops; successful connection on which the server sent "
                    "retry: 1 / 07 / +1 / x / empty / 10^12, or a retry after the last event) x %d Backoff configurations (Multiplier 1.5/2/1, MaxInterval "
                    "unset/12/20, MaxRetries -1/0/1/2/3, Jitter -1/default/0.25), replayed on a real Connection; every OnRetry(err, wait) is compared with the "
                    "spec's base wait b_k (exactly with Jitter -1, within +-Jitter otherwise); MaxElapsedTime is checked by sound necessary conditions on real time"
                    % (4 if q else 5, len(c12_cfgs(q))),
                    ["intervals are modelled in nanoseconds with the code's truncation; server retry values above 99 ms are carried symbolically", "retry: 0 is left out (the Backoff contract requires intervals > 0)",
                     "1 ns slack for float truncation in jittered waits", "MaxElapsedTime depends on wall-clock time: only necessary conditions are asserted"],
                    exhaustive=True)


# ---------------------------------------------------------------------------------------------- C13
def run_C13(ctx):
    agg = new_agg()
    q = ctx.quick
    consts = dict(Types=Raw('{"", "a", "NUL"}' if q else '{"", "a", "b", "NUL"}'), MaxCbs=3 if q else 4, MaxOps=7 if q else 9)   # "NUL": the event type "\x00"
    d = core.write_mc(ctx, "DispatchGen", "Dispatch", consts, invariants=["Routing", "Export"], properties=["RemovedStaysRemoved", "OthersUnaffected"], view="View")
    r = core.run_tlc(ctx, d, "DispatchGen", timeout=3000)
    beh = os.path.join(ctx.work, "beh-dispatch.ndjson")
    n = core.extract_exports(r.stdout_path, beh)
    resp = os.path.join(ctx.work, "res-dispatch.json")
    core.run_driver(ctx, ["dispatch", "-in", beh, "-out", resp], timeout=3000)
    res = core.read_json(resp)
    os.remove(beh)
    for v in res["violations"]:
        core.report(ctx, v["what"], v["detail"], v["signature"])
    core.log("%s/dispatch: %d behaviours, signatures %s" % (ctx.pid, res["behaviours"], res["notes"].get("violation_signatures")))
    agg["evaluations"] += res["evaluations"]
    agg["distinct"] += res["distinct_nontrivial"]
    agg["behaviours"] += res["behaviours"]
    agg["samples"] += res["samples"][:3]
    agg["n_violations"] += res["n_violations"]
    # the data-race clause: the race detector is the observation instrument
    rresp = os.path.join(ctx.work, "res-dispatch-race.json")
    binp = core.build_harness(ctx, race=True)
    import subprocess
    p = subprocess.run([binp, "dispatch-race", "-out", rresp, "-events", "300" if q else "3000"], capture_output=True, text=True, timeout=300,
                       env=dict(core.GOENV, VERIF_SEED=str(ctx.seed), GORACE="halt_on_error=0"))
    if os.path.exists(rresp):
        rres = core.read_json(rresp)
        for v in rres["violations"]:
            core.report(ctx, v["what"], v["detail"], v["signature"])
    races = p.stderr.count("WARNING: DATA RACE")
    agg["notes"]["race_detector_runs"] = 4
    agg["notes"]["data_races_reported"] = races
    if races:
        if "client_connection.go" in p.stderr or "go-sse" in p.stderr:
            i = p.stderr.find("WARNING: DATA RACE")
            core.report(ctx, "data race while subscribing / unsubscribing during dispatch (race detector)", {"race_report": p.stderr[i:i + 4000]}, "dispatch:race")
        else:
            raise core.ToolFailure("the race detector reported a race outside the library:\n" + p.stderr[:3000])
    elif p.returncode != 0:
        raise core.ToolFailure("dispatch-race failed rc=%d: %s" % (p.returncode, p.stderr[-2000:]))
    client_evidence(ctx, agg,
                    "every reachable registry transition (which callbacks are live for which type, last operation) over <= %d callbacks on types {'', a, b} and subscribe-to-all, with "
                    "repeated and stale removers, before and during a connection, reached by a shortest history; each replayed on a real Connection fed one event per step through a "
                    "handshaking body reader (the next Read proves the previous event's callbacks ran), subscribe/unsubscribe issued from another goroutine between events; plus 4 runs "
                    "of concurrent subscribe/unsubscribe during dispatch in a -race build; non-trivial = histories with at least one event" % (3 if q else 4),
                    ["the race detector observes the data-race clause (TLA+ does not model the Go memory model)", "callbacks are not re-entrant in the driver (never subscribe from inside a callback)"],
                    exhaustive=True)
