package main

import (
	"encoding/json"
	"errors"
	"flag"
	"fmt"
	"math"
	"runtime"
	"strconv"
	"strings"
	"sync/atomic"
	"time"

	sse "github.com/tmaxmax/go-sse"
)

// ---- behaviours exported by Replay.tla (ExportRec) ----

type rpOp struct {
	Op  string   `json:"op"`
	Tp  []string `json:"tp"`
	Res string   `json:"res"`
	K   int      `json:"k"`
}

type rpLid struct {
	Kind string `json:"kind"`
	J    int    `json:"j"`
	D    int    `json:"d"`
	S    string `json:"s"`
}

type rpProbe struct {
	Lid     rpLid    `json:"lid"`
	Tp      []string `json:"tp"`
	Allowed [][]int  `json:"allowed"`
}

type rpShape struct {
	Head  int   `json:"head"`
	Tail  int   `json:"tail"`
	Count int   `json:"count"`
	Cap   int   `json:"cap"`
	Slots []int `json:"slots"`
}

type rpBehaviour struct {
	Kind     string    `json:"kind"`
	N        int       `json:"n"`
	Auto     bool      `json:"auto"`
	TTL      int       `json:"ttl"`
	GCI      int       `json:"gci"`
	Ops      []rpOp    `json:"ops"`
	Now      int       `json:"now"`
	Probes   []rpProbe `json:"probes"`
	Retained []int     `json:"retained"`
	Dropped  []int     `json:"dropped"`
	Shape    rpShape   `json:"shape"`
	// EmptyAt (manual IDs; chosen by the driver, kept in replay files): the put whose ID is the set-but-empty ID("") -
	// a valid ID that must not be confused with an unset Last-Event-ID
	EmptyAt int `json:"emptyAt,omitempty"`
}

var rpBase = time.Unix(1_700_000_000, 0)

const rpUnit = time.Second

var errBoom = errors.New("boom")

// recWriter records what a Replay does to the subscription's MessageWriter.
type recWriter struct {
	log       []string // "s:<id>" / "f"
	sent      []*sse.Message
	failSend  int // fail the n-th Send (1-based); 0 = never
	failFlush bool
	nSend     int
	afterFail int // calls after a failure was reported
	failed    bool
}

func (w *recWriter) Send(m *sse.Message) error {
	if w.failed {
		w.afterFail++
	}
	w.nSend++
	w.sent = append(w.sent, m)
	w.log = append(w.log, "s:"+m.ID.String())
	if w.failSend == w.nSend {
		w.failed = true
		return errBoom
	}
	return nil
}

func (w *recWriter) Flush() error {
	if w.failed {
		w.afterFail++
	}
	w.log = append(w.log, "f")
	if w.failFlush {
		w.failed = true
		return errBoom
	}
	return nil
}

type rpRun struct {
	b        *rpBehaviour
	rep      sse.Replayer
	now      time.Time
	idOf     map[string]int // message ID -> put number
	nput     int
	stored   map[int]*sse.Message
	finals   []*atomic.Bool // per put number (1-based), set by the finalizer
	withFin  bool
	dead     bool // the replayer panicked: nothing more is asked of it
	problems []string
}

func (b *rpBehaviour) manualID(k int) string {
	if k == b.EmptyAt {
		return ""
	}
	return "m" + strconv.Itoa(k)
}

func (b *rpBehaviour) idOfPut(k int) string {
	if b.Auto {
		return strconv.Itoa(k - 1)
	}
	return b.manualID(k)
}

func newRun(b *rpBehaviour, withFin bool) (*rpRun, error) {
	r := &rpRun{b: b, now: rpBase, idOf: map[string]int{}, stored: map[int]*sse.Message{}, withFin: withFin}
	switch b.Kind {
	case "finite":
		fr, err := sse.NewFiniteReplayer(b.N, b.Auto)
		if err != nil {
			return nil, err
		}
		r.rep = fr
	case "valid":
		ttl := time.Duration(b.TTL) * rpUnit
		if b.TTL >= 1000000 {
			ttl = time.Duration(math.MaxInt64) // "keep everything"
		}
		vr, err := sse.NewValidReplayer(ttl, b.Auto)
		if err != nil {
			return nil, err
		}
		vr.Now = func() time.Time { return r.now }
		vr.GCInterval = time.Duration(b.GCI) * rpUnit
		r.rep = vr
	default:
		return nil, fmt.Errorf("unknown kind %q", b.Kind)
	}
	return r, nil
}

func (r *rpRun) bad(f string, a ...any) { r.problems = append(r.problems, fmt.Sprintf(f, a...)) }

// apply executes one operation of the history and compares what Put returns with the spec's expectation.
func (r *rpRun) apply(i int, op rpOp) {
	defer func() {
		if p := recover(); p != nil {
			r.bad("op %d: panicked in %s: %v", i, op.Op, p)
			r.dead = true
		}
	}()
	if r.dead {
		return
	}
	b := r.b
	switch op.Op {
	case "tick":
		r.now = r.now.Add(time.Duration(op.K) * rpUnit)
	case "gc":
		r.rep.(*sse.ValidReplayer).GC()
	case "setgci":
		// the exported field, assigned between calls by the replayer's owner
		r.rep.(*sse.ValidReplayer).GCInterval = time.Duration(op.K) * rpUnit
	case "put":
		m := &sse.Message{}
		m.AppendData("payload " + strconv.Itoa(i))
		k := r.nput + 1
		switch op.Res {
		case "ok":
			if !b.Auto {
				m.ID = sse.ID(b.manualID(k))
			}
		case "notopic":
			if !b.Auto {
				m.ID = sse.ID("nt" + strconv.Itoa(i))
			}
		case "idmismatch":
			if b.Auto {
				m.ID = sse.ID("mm" + strconv.Itoa(i))
			}
		}
		before := m.String()
		var tp []string
		if op.Res == "notopic" && (i+len(b.Ops))%2 == 1 {
			tp = []string{} // "no topics" is an empty list, nil or not
		}
		if op.Res != "notopic" {
			tp = permTopics(op.Tp, i+len(b.Ops))
			if op.Res == "idmismatch" {
				tp = []string{""}
			}
		}
		out, err := r.rep.Put(m, tp)
		if m.String() != before {
			r.bad("op %d: Put modified the caller's message: %q -> %q", i, before, m.String())
		}
		switch op.Res {
		case "ok":
			if err != nil || out == nil {
				r.bad("op %d: valid Put failed: %v", i, err)
				return
			}
			r.nput = k
			want := b.idOfPut(k)
			if !out.ID.IsSet() || out.ID.String() != want {
				r.bad("op %d: Put number %d returned ID %q (set=%v), want %q", i, k, out.ID.String(), out.ID.IsSet(), want)
			}
			if !b.Auto && out != m {
				r.bad("op %d: manual-ID Put returned a different message", i)
			}
			if b.Auto && out == m {
				r.bad("op %d: automatic-ID Put returned the caller's message", i)
			}
			r.idOf[out.ID.String()] = k
			if r.withFin {
				flag := new(atomic.Bool)
				r.finals = append(r.finals, flag)
				runtime.SetFinalizer(out, func(*sse.Message) { flag.Store(true) })
			} else {
				r.stored[k] = out
			}
		case "notopic":
			if !errors.Is(err, sse.ErrNoTopic) {
				r.bad("op %d: Put without topics returned %v, want ErrNoTopic", i, err)
			}
			if out != nil {
				r.bad("op %d: rejected Put returned a message", i)
			}
		case "idmismatch":
			if err == nil {
				r.bad("op %d: Put with an ID mismatch (auto=%v) was accepted", i, b.Auto)
			}
			if out != nil {
				r.bad("op %d: rejected Put returned a message", i)
			}
		}
	}
}

func (r *rpRun) lid(l rpLid) sse.EventID {
	switch l.Kind {
	case "unset":
		return sse.EventID{}
	case "put":
		return sse.ID(r.b.idOfPut(l.J))
	case "next":
		return sse.ID(strconv.Itoa(r.nput + l.D))
	case "lit":
		return sse.ID(l.S)
	}
	panic("bad lid kind " + l.Kind)
}

func (r *rpRun) replay(p rpProbe, failSend int, failFlush bool) (w *recWriter, ks []int, err error, panicked any) {
	w = &recWriter{failSend: failSend, failFlush: failFlush}
	func() {
		defer func() { panicked = recover() }()
		err = r.rep.Replay(sse.Subscription{Client: w, LastEventID: r.lid(p.Lid), Topics: permTopics(p.Tp, len(r.b.Ops)+len(p.Tp))})
	}()
	for _, m := range w.sent {
		k, ok := r.idOf[m.ID.String()]
		if !ok {
			k = -1
		}
		ks = append(ks, k)
	}
	return
}

// permTopics: topic lists are sets - the order in which a caller lists them must not matter (every other list is reversed)
func permTopics(tp []string, k int) []string {
	if k%2 == 0 || len(tp) < 2 {
		return tp
	}
	out := make([]string, len(tp))
	for i, t := range tp {
		out[len(tp)-1-i] = t
	}
	return out
}

func intsEq(a, b []int) bool {
	if len(a) != len(b) {
		return false
	}
	for i := range a {
		if a[i] != b[i] {
			return false
		}
	}
	return true
}

func lidClass(b *rpBehaviour, p rpProbe, nput int) string {
	switch p.Lid.Kind {
	case "put":
		in := false
		for _, k := range b.Retained {
			if k == p.Lid.J {
				in = true
			}
		}
		switch {
		case p.Lid.J == nput:
			return "newest"
		case !in:
			return "gone"
		default:
			return "buffered"
		}
	default:
		return p.Lid.Kind
	}
}

// checkProbes runs every probe of the behaviour's final state against the real replayer.
func (r *rpRun) checkProbes(res *Result, faults bool) {
	b := r.b
	okey := opsKey(b)
	for pi, p := range b.Probes {
		if b.EmptyAt > 0 && p.Lid.Kind == "lit" && p.Lid.S == "" {
			continue // here "" is the ID of put EmptyAt, probed as such
		}
		w, ks, err, pn := r.replay(p, 0, false)
		res.eval(1)
		cls := lidClass(b, p, r.nput)
		mode := b.Kind + "/" + map[bool]string{true: "auto", false: "manual"}[b.Auto]
		if pn != nil {
			res.violate(fmt.Sprintf("Replay panicked: %v", pn), "replay:panic:"+mode+":"+cls, rpDetail(b, p, ks, w, err))
			continue
		}
		okSeq := false
		for _, a := range p.Allowed {
			if intsEq(a, ks) {
				okSeq = true
			}
		}
		if !okSeq {
			res.violate(fmt.Sprintf("Replay(%s %s id) sent puts %v, spec allows %v", mode, cls, ks, p.Allowed),
				"replay:seq:"+mode+":"+cls, rpDetail(b, p, ks, w, err))
			continue
		}
		if err != nil {
			res.violate(fmt.Sprintf("Replay returned %v without any failure", err), "replay:err:"+mode, rpDetail(b, p, ks, w, err))
		}
		// flush discipline: if anything was sent, exactly one Flush, after the last Send
		nf := 0
		for _, e := range w.log {
			if e == "f" {
				nf++
			}
		}
		if len(ks) > 0 {
			if nf != 1 || w.log[len(w.log)-1] != "f" {
				res.violate(fmt.Sprintf("Replay sent %d messages but flush log is %v", len(ks), w.log), "replay:flush:"+mode, rpDetail(b, p, ks, w, err))
			}
			res.nontrivial(okey + "#" + strconv.Itoa(pi))
		} else if nf > 1 {
			res.violate("Replay flushed more than once", "replay:flush:"+mode, rpDetail(b, p, ks, w, err))
		} else if b.Kind == "finite" && cls == "buffered" && nf != 1 {
			// C08: "Replay with the ID of a buffered event sends exactly the later buffered events whose topics intersect ..., then
			// flushes" - also when none of the later events matches the subscription's topics
			res.violate(fmt.Sprintf("Replay from a buffered ID whose later events match no topic of the subscription did not flush (log %v)", w.log), "replay:flush-empty:"+mode, rpDetail(b, p, ks, w, err))
		}
		// every message keeps the ID it was given at Put
		for i, m := range w.sent {
			if ks[i] > 0 && m.ID.String() != b.idOfPut(ks[i]) {
				res.violate("replayed message carries another ID than at Put", "replay:id:"+mode, rpDetail(b, p, ks, w, err))
			}
		}
		if !faults || len(ks) == 0 {
			continue
		}
		// fault dimension: the f-th Send fails => Replay returns that error, nothing is sent afterwards
		for f := 1; f <= len(ks); f++ {
			w2, ks2, err2, pn2 := r.replay(p, f, false)
			res.eval(1)
			if pn2 != nil {
				res.violate(fmt.Sprintf("Replay panicked: %v", pn2), "replay:panic:"+mode, rpDetail(b, p, ks2, w2, err2))
				continue
			}
			if !errors.Is(err2, errBoom) {
				res.violate(fmt.Sprintf("Send %d of %d failed but Replay returned %v", f, len(ks), err2), "replay:fault-err:"+mode, rpDetail(b, p, ks2, w2, err2))
			}
			if !intsEq(ks2, ks[:f]) || w2.afterFail != 0 {
				res.violate(fmt.Sprintf("Send %d failed: sent %v (calls after failure: %d), want %v", f, ks2, w2.afterFail, ks[:f]), "replay:fault-seq:"+mode, rpDetail(b, p, ks2, w2, err2))
			}
		}
		w3, ks3, err3, pn3 := r.replay(p, 0, true)
		res.eval(1)
		if pn3 != nil || !errors.Is(err3, errBoom) || !intsEq(ks3, ks) {
			res.violate(fmt.Sprintf("Flush failed: Replay returned %v, sent %v (panic %v)", err3, ks3, pn3), "replay:fault-flush:"+mode, rpDetail(b, p, ks3, w3, err3))
		}
	}
}

func rpDetail(b *rpBehaviour, p rpProbe, ks []int, w *recWriter, err error) any {
	return map[string]any{"driver": "replay", "behaviour": b, "kind": b.Kind, "n": b.N, "auto": b.Auto, "ttl": b.TTL, "gci": b.GCI, "ops": b.Ops,
		"probe": p, "sent_puts": ks, "writer_log": w.log, "err": fmt.Sprint(err), "spec_shape": b.Shape}
}

// checkShape compares the implementation's ring with the spec's slots: drift information, never a verdict.
func (r *rpRun) checkShape(res *Result) {
	sh, ok := sse.VerifReplayerShape(r.rep)
	if !ok {
		return
	}
	b := r.b
	same := sh.Head == b.Shape.Head && sh.Tail == b.Shape.Tail && sh.Count == b.Shape.Count && sh.Cap == b.Shape.Cap && len(sh.IDs) == len(b.Shape.Slots)
	if same {
		for i, k := range b.Shape.Slots {
			if (k == 0) != !sh.Occupied[i] || (k > 0 && sh.IDs[i] != b.idOfPut(k)) {
				same = false
			}
		}
	}
	if !same {
		res.drift(map[string]any{"ops": b.Ops, "impl": sh, "spec": b.Shape})
		res.addNote("shape_drift", 1)
	} else {
		res.addNote("shape_agree", 1)
	}
}

func runHistory(b *rpBehaviour, withFin bool) (*rpRun, error) {
	r, err := newRun(b, withFin)
	if err != nil {
		return nil, err
	}
	for i, op := range b.Ops {
		r.apply(i, op)
	}
	return r, nil
}

func opsKey(b *rpBehaviour) string {
	var sb strings.Builder
	fmt.Fprintf(&sb, "%s/%d/%v/%d/%d:", b.Kind, b.N, b.Auto, b.TTL, b.GCI)
	for _, o := range b.Ops {
		fmt.Fprintf(&sb, "%s%v%s%d;", o.Op, o.Tp, o.Res, o.K)
	}
	return sb.String()
}

// cmdReplay: C08 / C09 (and the Put half of C19) — replays exported histories on real replayers.
func cmdReplay(args []string) {
	fs := flag.NewFlagSet("replay", flag.ExitOnError)
	in := fs.String("in", "", "ndjson behaviours exported by Replay.tla")
	out := fs.String("out", "", "result file")
	faults := fs.Bool("faults", true, "multiply by the failing-Send dimension")
	fs.Parse(args)
	res := newResult()
	n := eachLine(*in, runtime.NumCPU(), func(line []byte, idx int) {
		var b rpBehaviour
		if err := json.Unmarshal(line, &b); err != nil {
			fatal("bad behaviour line %d: %v", idx, err)
		}
		if !b.Auto && b.EmptyAt == 0 && idx%2 == 1 {
			b.EmptyAt = 1 + (idx/2)%3
		}
		r, err := runHistory(&b, false)
		if err != nil {
			fatal("behaviour %d: %v", idx, err)
		}
		mode := b.Kind + "/" + map[bool]string{true: "auto", false: "manual"}[b.Auto]
		for _, p := range r.problems {
			res.violate(p, "put:"+mode+":"+strings.SplitN(p, ":", 2)[1][:min(24, len(strings.SplitN(p, ":", 2)[1]))], map[string]any{"driver": "replay", "behaviour": b})
		}
		if !r.dead {
			r.checkProbes(res, *faults)
			r.checkShape(res)
		}
		if idx%997 == 0 {
			res.sample(map[string]any{"kind": b.Kind, "n": b.N, "auto": b.Auto, "ttl": b.TTL, "gci": b.GCI, "ops": b.Ops, "probes": len(b.Probes), "first_probe": b.Probes[0]})
		}
	})
	res.Behaviours = n
	res.write(*out)
}

// cmdRetain: C18 — evicted / collected messages become unreachable, retained ones stay replayable.
// Histories are run in helper goroutines that keep no reference to the messages; a finalizer on each
// stored message observes reachability after forced garbage collections.
func cmdRetain(args []string) {
	fs := flag.NewFlagSet("retain", flag.ExitOnError)
	in := fs.String("in", "", "ndjson behaviours exported by Replay.tla")
	out := fs.String("out", "", "result file")
	batch := fs.Int("batch", 400, "histories per garbage-collection round")
	fs.Parse(args)
	res := newResult()
	var pending []*rpRun
	check := func() {
		if len(pending) == 0 {
			return
		}
		// wait until every message the spec says is unreachable has been finalised
		deadline := time.Now().Add(5 * time.Second)
		missing := func() int {
			c := 0
			for _, r := range pending {
				for _, k := range r.b.Dropped {
					if !r.finals[k-1].Load() {
						c++
					}
				}
			}
			return c
		}
		rounds := 0
		for rounds < 20 {
			runtime.GC()
			rounds++
			if missing() == 0 {
				break
			}
			if time.Now().After(deadline) {
				break
			}
			time.Sleep(time.Millisecond)
		}
		for _, r := range pending {
			b := r.b
			mode := b.Kind + "/" + map[bool]string{true: "auto", false: "manual"}[b.Auto]
			var leaked []int
			for _, k := range b.Dropped {
				if !r.finals[k-1].Load() {
					leaked = append(leaked, k)
				}
			}
			res.eval(1)
			if len(b.Dropped) > 0 {
				res.nontrivial(opsKey(b))
			}
			if len(leaked) > 0 {
				sh, _ := sse.VerifReplayerShape(r.rep)
				res.violate(fmt.Sprintf("%s: puts %v were evicted/collected but are still reachable after %d GC rounds", mode, leaked, rounds),
					"retain:leak:"+mode, map[string]any{"driver": "retain", "behaviour": b, "leaked": leaked, "impl_shape": sh})
			}
			// retained ones must still be there: finalizer not run and replayable
			for _, k := range b.Retained {
				if r.finals[k-1].Load() {
					res.violate(fmt.Sprintf("%s: put %d should be retained but was finalised", mode, k), "retain:lost:"+mode, map[string]any{"driver": "retain", "behaviour": b})
				}
			}
			// keep the replayer alive until here
			runtime.KeepAlive(r.rep)
		}
		pending = pending[:0]
	}
	n := eachLine(*in, 1, func(line []byte, idx int) {
		b := new(rpBehaviour)
		if err := json.Unmarshal(line, b); err != nil {
			fatal("bad behaviour line %d: %v", idx, err)
		}
		done := make(chan *rpRun)
		go func() {
			r, err := runHistory(b, true)
			if err != nil {
				fatal("behaviour %d: %v", idx, err)
			}
			// a replay in between must not make anything reachable again
			for _, p := range b.Probes[:min(3, len(b.Probes))] {
				r.replay(p, 0, false)
			}
			done <- r
		}()
		r := <-done
		for _, p := range r.problems {
			res.violate(p, "retain:history", map[string]any{"driver": "retain", "behaviour": b})
		}
		if r.dead || len(r.finals) < len(b.Dropped)+len(b.Retained) {
			return
		}
		pending = append(pending, r)
		if idx%499 == 0 {
			res.sample(map[string]any{"kind": b.Kind, "n": b.N, "auto": b.Auto, "ttl": b.TTL, "gci": b.GCI, "ops": b.Ops, "dropped": b.Dropped, "retained": b.Retained})
		}
		if len(pending) >= *batch {
			check()
		}
	})
	check()
	res.Behaviours = n
	res.write(*out)
}

func init() {
	commands["replay"] = cmdReplay
	commands["retain"] = cmdRetain
}
