package main

import (
	"bufio"
	"context"
	"encoding/json"
	"flag"
	"fmt"
	"os"
	"runtime"
	"strconv"
	"strings"
	"sync"
	"time"

	sse "github.com/tmaxmax/go-sse"
)

// Direction A for Joe: behaviours of JoeMC.tla exported by TLC (JoeSched.tla) are replayed against the
// real Joe.  The environment's steps - calls, cancellations, which Send / Flush / Put / Replay fails -
// are performed as the behaviour lists them, and every event (hook point or driver-side) is a gate:
//
//   - a step of Joe's goroutine (the n-th loop event) waits until every step of another process that the
//     behaviour puts before the n-th loop step was taken;
//   - a step of another process waits until the loop has taken as many steps as precede it in the
//     behaviour, and until the other processes' earlier steps were taken.
//
// Steps that have no effect of their own (CallSub / CallPub / CallDown, and S2Ctx - the observation of a
// done context) are moved right in front of the process's next step, so that at most one sender is
// pending on Joe's channels and Go's select has no choice left where the behaviour made one.
//
// Steering is best effort: where the runtime still has a choice (a closed j.done next to a pending send)
// or the code takes a different number of steps, a gate that does not open within stallAfter switches the
// scenario to free running.  The verdict never comes from the steering: the recorded trace of what the
// real Joe did is validated by JoeTrace.tla like every other trace.

type sstep struct {
	name, a, b, c string
	actor         string
	loop          bool
	loopBefore    int
}

type steerer struct {
	mu         sync.Mutex
	cond       *sync.Cond
	steps      []sstep
	loopIdx    []int
	actorSteps map[string][]int
	cursor     map[string]int
	done       []bool
	loopCount  int
	nl         int // first step of a process other than the loop that was not taken yet
	free       bool
	stalled    bool
	waiting    int
	last       time.Time
	ndone      int
	mismatch   int
	lastTaken  int
	outOfOrder int // steps taken before an earlier step of the behaviour
	extra      int // loop events the behaviour does not have
	skipped    int // loop steps of the behaviour the code did not take
}

const stallAfter = 60 * time.Millisecond

func stepActor(name, a string) (string, bool) {
	switch name {
	case "CallSub", "S1Closed", "RecvDone", "S2Ctx", "RetSub":
		return "sub:" + a, false
	case "Cancel":
		return "cancel:" + a, false
	case "CallPub", "PubClosed", "RetPub":
		return "pub:" + a, false
	case "CallDown", "DownPre", "DownOK", "DownRecovered", "DownClosed", "DownCtx", "RetDown":
		return "down:" + a, false
	}
	return "loop", true
}

// eventStep names the action of Joe.tla an event of the trace corresponds to (JoeTrace.tla's binding).
var eventStep = map[string]string{
	"call.sub": "CallSub", "sub.s1.closed": "S1Closed", "sub.s2.done": "RecvDone", "sub.s3.done": "RecvDone", "sub.s4.done": "RecvDone",
	"sub.s2.ctx": "S2Ctx", "cancel": "Cancel", "ret.sub": "RetSub", "loop.select": "LoopSelect", "loop.sub": "LoopSub", "rbegin": "RBegin",
	"send": "Send", "flush": "Flush", "rend": "REnd", "loop.subfail": "LoopSubFail", "loop.register": "LoopRegister", "loop.msg": "LoopMsg",
	"put": "Put", "loop.reply.err": "ReplyErr", "loop.reply": "Reply", "loop.fail": "LoopFail", "loop.remove": "LoopRemove",
	"loop.unsub": "LoopUnsub", "loop.done": "LoopDone", "loop.exit": "LoopExit", "call.pub": "CallPub", "pub.closed": "PubClosed",
	"ret.pub": "RetPub", "call.down": "CallDown", "down.pre": "DownPre", "down.ok": "DownOK", "down.recovered": "DownRecovered",
	"down.closed": "DownClosed", "down.ctx": "DownCtx", "ret.down": "RetDown",
}

func eventActor(e jev) string {
	name, _ := e["e"].(string)
	st := eventStep[name]
	if st == "" {
		return ""
	}
	key := ""
	switch {
	case strings.HasSuffix(name, ".sub") && name != "loop.sub", strings.HasPrefix(name, "sub."), name == "cancel":
		key, _ = e["s"].(string)
	case strings.HasSuffix(name, ".pub"), name == "pub.closed":
		key, _ = e["p"].(string)
	case strings.HasSuffix(name, ".down"), strings.HasPrefix(name, "down."):
		key, _ = e["k"].(string)
	}
	a, _ := stepActor(st, key)
	return a
}

// moveLate moves the steps without an effect of their own right in front of the same process's next step.  DownPre (the
// hook before close(j.done)) is moved in front of the first step that observes the closing - LoopDone, S1Closed, PubClosed
// or any later step of a Shutdown call: once j.done is closed for real, a select that also has a pending sender is the
// runtime's choice, and a loop that reaches its select later takes the closed channel for certain.
func moveLate(raw [][]string) [][]string {
	out := make([][]string, 0, len(raw))
	pending := map[string][][]string{} // actor -> held steps, in order
	var order []string                 // actors with held steps, in the order they were first held
	flush := func(actor string) {
		if hs, ok := pending[actor]; ok {
			out = append(out, hs...)
			delete(pending, actor)
		}
	}
	observesClose := map[string]bool{"LoopDone": true, "S1Closed": true, "PubClosed": true, "DownOK": true, "DownRecovered": true,
		"DownClosed": true, "DownCtx": true, "RetDown": true}
	for _, st := range raw {
		actor, _ := stepActor(st[0], st[1])
		// a rendezvous is a step of the loop that is also the next step of the calling process
		switch st[0] {
		case "LoopSub", "LoopUnsub":
			actor = "sub:" + st[1]
		case "LoopMsg":
			actor = "pub:" + st[1]
		}
		if observesClose[st[0]] {
			for _, a := range order {
				if strings.HasPrefix(a, "down:") {
					flush(a)
				}
			}
		}
		switch st[0] {
		case "CallSub", "CallPub", "CallDown", "S2Ctx", "DownPre":
			if st[0] != "DownPre" {
				flush(actor)
			}
			if _, ok := pending[actor]; !ok {
				order = append(order, actor)
			}
			pending[actor] = append(pending[actor], st)
			continue
		}
		flush(actor)
		out = append(out, st)
	}
	for _, a := range order {
		flush(a)
	}
	// Joe's goroutine is started by the first call: its first step cannot precede it
	ls, call := -1, -1
	for i, st := range out {
		if ls < 0 && st[0] == "LoopSelect" {
			ls = i
		}
		if call < 0 && (st[0] == "CallSub" || st[0] == "CallPub" || st[0] == "CallDown") {
			call = i
		}
	}
	if ls >= 0 && call > ls {
		first := out[ls]
		copy(out[ls:call], out[ls+1:call+1])
		out[call] = first
	}
	return out
}

func newSteerer(raw [][]string) *steerer {
	st := &steerer{actorSteps: map[string][]int{}, cursor: map[string]int{}}
	st.cond = sync.NewCond(&st.mu)
	nloop := 0
	for i, r := range moveLate(raw) {
		for len(r) < 4 {
			r = append(r, "")
		}
		actor, loop := stepActor(r[0], r[1])
		s := sstep{name: r[0], a: r[1], b: r[2], c: r[3], actor: actor, loop: loop, loopBefore: nloop}
		if loop {
			st.loopIdx = append(st.loopIdx, i)
			nloop++
		} else {
			st.actorSteps[actor] = append(st.actorSteps[actor], i)
		}
		st.steps = append(st.steps, s)
	}
	st.done = make([]bool, len(st.steps))
	st.last = time.Now()
	return st
}

func (st *steerer) othersBefore(i int) bool {
	for st.nl < len(st.steps) && (st.steps[st.nl].loop || st.done[st.nl]) {
		st.nl++
	}
	return st.nl >= i
}

func (st *steerer) take(i int, what string) {
	if i < st.lastTaken {
		st.outOfOrder++
	}
	st.lastTaken = i
	st.done[i] = true
	st.ndone++
	if st.steps[i].name != what {
		st.mismatch++
	}
	st.last = time.Now()
	st.cond.Broadcast()
}

// gate holds the calling goroutine until the behaviour lets its next step happen.
func (st *steerer) gate(actor, what string) {
	st.mu.Lock()
	defer st.mu.Unlock()
	if st.free {
		return
	}
	if actor == "loop" {
		// The loop's steps are matched by name: Joe serves the subscribers of one hand-out in an order of his own, a
		// real replayer flushes only what it sent, and a closed j.done next to a pending send leaves select a choice -
		// the loop may take fewer or other steps than the behaviour.  Steps the code skipped are passed over (up to
		// the start of the behaviour's next loop iteration); a step the behaviour does not have is not gated.
		n := st.loopCount
		m := -1
		iterStart := what == "LoopSelect" || what == "LoopDone" || what == "LoopExit"
		for k := n; k < len(st.loopIdx); k++ {
			nm := st.steps[st.loopIdx[k]].name
			if nm == what {
				m = k
				break
			}
			if !iterStart && (nm == "LoopSelect" || nm == "LoopDone") && k > n {
				break
			}
		}
		if what == "LoopExit" && m < 0 {
			m = len(st.loopIdx) // Joe's goroutine is gone: nothing of the loop is left to wait for
		}
		if m < 0 {
			if st.ndone < len(st.steps) {
				st.extra++
			}
			return
		}
		for k := n; k < m && k < len(st.loopIdx); k++ {
			if i := st.loopIdx[k]; !st.done[i] {
				st.done[i] = true
				st.ndone++
				st.skipped++
			}
		}
		st.loopCount = m
		if m >= len(st.loopIdx) {
			st.last = time.Now()
			st.cond.Broadcast()
			return
		}
		i := st.loopIdx[m]
		st.cond.Broadcast()
		st.waiting++
		for !st.free && !st.othersBefore(i) {
			st.cond.Wait()
		}
		st.waiting--
		st.loopCount = m + 1
		if !st.free {
			st.take(i, what)
		}
		return
	}
	k := st.cursor[actor]
	idx := st.actorSteps[actor]
	if k >= len(idx) {
		st.cursor[actor]++
		return
	}
	if strings.HasPrefix(what, "Ret") {
		// the call is over: whatever else the behaviour had for it did not happen
		for ; k < len(idx)-1; k++ {
			if i := idx[k]; !st.done[i] {
				st.done[i] = true
				st.ndone++
				st.skipped++
			}
		}
		st.cond.Broadcast()
	}
	st.cursor[actor] = k + 1
	i := idx[k]
	st.waiting++
	for !st.free && !(st.loopCount >= st.steps[i].loopBefore && st.othersBefore(i)) {
		st.cond.Wait()
	}
	st.waiting--
	if !st.free {
		st.take(i, what)
	}
}

func (st *steerer) debugStall() {
	if os.Getenv("VERIF_STEER_DEBUG") == "" {
		return
	}
	fmt.Fprintf(os.Stderr, "STALL ndone=%d/%d loopCount=%d nl=%d waiting=%d cursors=%v\n", st.ndone, len(st.steps), st.loopCount, st.nl, st.waiting, st.cursor)
	for i, s := range st.steps {
		m := " "
		if st.done[i] {
			m = "x"
		}
		fmt.Fprintf(os.Stderr, "  %s %3d %-14s %s %s %s (%s, loopBefore %d)\n", m, i, s.name, s.a, s.b, s.c, s.actor, s.loopBefore)
	}
}

// watch switches to free running when a gate stays shut although nothing moves, and reports the end of the behaviour.
func (st *steerer) watch(stop <-chan struct{}, finished chan<- struct{}) {
	tk := time.NewTicker(2 * time.Millisecond)
	defer tk.Stop()
	closed := false
	for {
		select {
		case <-stop:
			return
		case <-tk.C:
		}
		st.mu.Lock()
		if !st.free && st.waiting > 0 && time.Since(st.last) > stallAfter {
			st.debugStall()
			st.free, st.stalled = true, true
			st.cond.Broadcast()
		}
		// nothing is waiting and nothing has moved for a while: the processes that remain are blocked for good
		// (e.g. the behaviour expects a step the code does not take)
		if !st.free && st.ndone < len(st.steps) && time.Since(st.last) > 4*stallAfter {
			st.free, st.stalled = true, true
			st.cond.Broadcast()
		}
		fin := st.free || st.ndone >= len(st.steps)
		st.mu.Unlock()
		if fin && !closed {
			closed = true
			close(finished)
		}
	}
}

type steerCfg struct {
	Subs map[string]struct {
		Topics []string `json:"topics"`
		Lid    string   `json:"lid"`
	} `json:"subs"`
	Pubs map[string]struct {
		Topics []string `json:"topics"`
		After  string   `json:"after"`
	} `json:"pubs"`
	Downs    map[string]bool `json:"downs"` // name -> context already done
	Replayer string          `json:"replayer"`
	RCap     int             `json:"rcap"`
	Name     string          `json:"name"`
}

type steerCase struct {
	Cfg   steerCfg   `json:"cfg"`
	Steps [][]string `json:"steps"`
}

// steered writers / replayer: faults are keyed by what is being done, not by call counts, because the
// order in which Joe serves subscribers in one hand-out is not the behaviour's
type faultPlan struct {
	sendLive   map[string]bool // s/p
	sendReplay map[string]bool
	flushAfter map[string]bool // s/p (live)
	flushRep   map[string]bool // s
	put        map[string]string
	rend       map[string]string
	rendSends  map[string]int // replayed Sends the behaviour has before a scripted end of the replay
}

func planFaults(raw [][]string) *faultPlan {
	fp := &faultPlan{sendLive: map[string]bool{}, sendReplay: map[string]bool{}, flushAfter: map[string]bool{}, flushRep: map[string]bool{},
		put: map[string]string{}, rend: map[string]string{}, rendSends: map[string]int{}}
	inRep := ""
	lastSend := map[string]string{}
	for _, r := range raw {
		switch r[0] {
		case "RBegin":
			inRep = r[1]
		case "REnd":
			if r[2] == "replayerr" || r[2] == "panic" {
				fp.rend[r[1]] = r[2]
			}
			inRep = ""
		case "Send":
			if inRep == r[1] {
				fp.rendSends[r[1]]++
				if r[3] == "F" {
					fp.sendReplay[r[1]+"/"+r[2]] = true
				}
			} else {
				lastSend[r[1]] = r[2]
				if r[3] == "F" {
					fp.sendLive[r[1]+"/"+r[2]] = true
				}
			}
		case "Flush":
			if r[2] == "F" {
				if inRep == r[1] {
					fp.flushRep[r[1]] = true
				} else {
					fp.flushAfter[r[1]+"/"+lastSend[r[1]]] = true
				}
			}
		case "Put":
			if r[2] != "ok" {
				fp.put[r[1]] = r[2]
			}
		}
	}
	return fp
}

type sjw struct {
	t        *jtracer
	id       string
	fp       *faultPlan
	inReplay bool
	lastP    string
	err      error // what a failing call returns
}

func (w *sjw) Send(m *sse.Message) error {
	p := nameOf(m)
	fail := false
	if w.inReplay {
		fail = w.fp.sendReplay[w.id+"/"+p]
	} else {
		fail = w.fp.sendLive[w.id+"/"+p]
		w.lastP = p
	}
	w.t.log(jev{"e": "send", "s": w.id, "p": p, "id": m.ID.String(), "idset": m.ID.IsSet(), "ok": !fail})
	if fail {
		return w.err
	}
	return nil
}

func (w *sjw) Flush() error {
	fail := false
	if w.inReplay {
		fail = w.fp.flushRep[w.id]
	} else {
		fail = w.fp.flushAfter[w.id+"/"+w.lastP]
	}
	w.t.log(jev{"e": "flush", "s": w.id, "ok": !fail})
	if fail {
		return w.err
	}
	return nil
}

type srep struct {
	t     *jtracer
	inner sse.Replayer
	fp    *faultPlan
}

func (r *srep) Put(m *sse.Message, tp []string) (*sse.Message, error) {
	name := nameOf(m)
	switch r.fp.put[name] {
	case "panic":
		r.t.log(jev{"e": "put", "p": name, "v": "panic", "id": "", "idset": false})
		if len(name)%2 == 0 {
			panic(fmt.Errorf("scripted replayer panic in Put: %w", errPut))
		}
		panic("scripted replayer panic in Put")
	case "err":
		r.t.log(jev{"e": "put", "p": name, "v": "err", "id": "", "idset": false})
		if len(name)%2 == 0 {
			return m, errPut
		}
		return nil, errPut
	}
	o, err := r.inner.Put(m, tp)
	if err != nil {
		r.t.log(jev{"e": "put", "p": name, "v": "err", "id": "", "idset": false})
		return o, err
	}
	r.t.mu.Lock()
	r.t.pids[name] = o.ID.String()
	r.t.mu.Unlock()
	r.t.log(jev{"e": "put", "p": name, "v": "ok", "id": o.ID.String(), "idset": o.ID.IsSet()})
	return o, nil
}

func (r *srep) Replay(s sse.Subscription) error {
	w := s.Client.(*sjw)
	r.t.log(jev{"e": "rbegin", "s": w.id})
	w.inReplay = true
	defer func() { w.inReplay = false }()
	v := r.fp.rend[w.id]
	if v != "" && r.fp.rendSends[w.id] == 0 {
		r.t.log(jev{"e": "rend", "s": w.id, "v": v})
		if v == "panic" {
			panic("scripted replayer panic in Replay")
		}
		return errReplay
	}
	err := r.inner.Replay(s)
	if v == "panic" {
		r.t.log(jev{"e": "rend", "s": w.id, "v": v})
		panic("scripted replayer panic in Replay")
	}
	if v == "replayerr" {
		r.t.log(jev{"e": "rend", "s": w.id, "v": v})
		return errReplay
	}
	out := "nil"
	if err != nil {
		out = "err"
	}
	r.t.log(jev{"e": "rend", "s": w.id, "v": out})
	return err
}

type steerStats struct {
	Cases, Steered, Stalled, Steps, StepsTaken, Mismatched, Extra, Skipped int
	Exact                                                                  int // behaviours the real code followed step by step, in the behaviour's order, to their end (in one of the attempts)
	Attempts                                                               int // runs made: a behaviour that was not followed exactly (Go's select chose otherwise) is tried once more
	Behaviours                                                             int
}

func runSteered(idx int, c *steerCase, stats *steerStats) (evs []jev, blocked bool, dump string, exact bool) {
	procs := []int{1, 2, 16}[idx%3]
	runtime.GOMAXPROCS(procs)
	t := newTracer(int64(idx), 0)
	t.pids = map[string]string{}
	st := newSteerer(c.Steps)
	t.steer = st
	sse.VerifHook = t.hook
	defer func() { sse.VerifHook = nil }()
	fp := planFaults(c.Steps)

	auto := strings.HasSuffix(c.Cfg.Replayer, "auto")
	var rep sse.Replayer
	switch {
	case c.Cfg.Replayer == "none":
	case strings.HasPrefix(c.Cfg.Replayer, "valid"):
		vr, _ := sse.NewValidReplayer(time.Hour, auto)
		rep = &srep{t: t, inner: vr, fp: fp}
	default:
		n := 64
		if c.Cfg.RCap > 0 {
			n = c.Cfg.RCap
		}
		fr, _ := sse.NewFiniteReplayer(n, auto)
		rep = &srep{t: t, inner: fr, fp: fp}
	}
	j := &sse.Joe{Replayer: rep}
	t.evs = append(t.evs, jev{"e": "reset", "seed": idx, "procs": procs, "replayer": c.Cfg.Replayer, "auto": auto, "focus": "steer:" + c.Cfg.Name, "cap": c.Cfg.RCap})

	var wg sync.WaitGroup
	cancels := map[string]context.CancelFunc{}
	cancelled := map[string]bool{}
	var cmu sync.Mutex
	for s, sc := range c.Cfg.Subs {
		s, sc := s, sc
		ctx, cancel := context.WithCancel(context.Background())
		cancels[s] = cancel
		w := &sjw{t: t, id: s, fp: fp, err: writerErr(int64(idx), len(s)+int(s[len(s)-1]))}
		t.mu.Lock()
		t.subs[w] = s
		t.mu.Unlock()
		tp := sc.Topics
		if tp == nil {
			tp = []string{}
		}
		wg.Add(1)
		go func() {
			defer wg.Done()
			// the gate of CallSub: the call is made when the behaviour lets Joe receive it (or refuse it)
			st.gate("sub:"+s, "CallSub")
			lid, lidSet, lidName := "", false, ""
			if sc.Lid != "" {
				lidSet, lidName, lid = true, sc.Lid, sc.Lid
				if auto {
					t.mu.Lock()
					id, ok := t.pids[sc.Lid]
					t.mu.Unlock()
					if ok {
						lid = id
					} else {
						lid, lidName = "never-issued", ""
					}
				}
			}
			sub := sse.Subscription{Client: w, Topics: tp}
			if lidSet {
				sub.LastEventID = sse.ID(lid)
			}
			t.logUngated(jev{"e": "call.sub", "s": s, "t": tp, "lid": lid, "lidset": lidSet, "lidname": lidName})
			err := j.Subscribe(ctx, sub)
			t.log(jev{"e": "ret.sub", "s": s, "v": subClass(err)})
		}()
	}
	// scheduled cancellations
	for _, r := range c.Steps {
		if r[0] != "Cancel" {
			continue
		}
		s := r[1]
		cancelled[s] = true
		wg.Add(1)
		go func() {
			defer wg.Done()
			t.log(jev{"e": "cancel", "s": s})
			cancels[s]()
		}()
	}
	mk := func(name string) *sse.Message {
		m := &sse.Message{}
		if !auto {
			m.ID = sse.ID(name)
		}
		m.AppendData(name)
		t.mu.Lock()
		t.msgs[m] = name
		t.mu.Unlock()
		return m
	}
	// publisher goroutines: one per chain (program order)
	next := map[string]string{}
	heads := []string{}
	for p, pc := range c.Cfg.Pubs {
		if pc.After == "" {
			heads = append(heads, p)
		} else {
			next[pc.After] = p
		}
	}
	for _, h := range heads {
		h := h
		wg.Add(1)
		go func() {
			defer wg.Done()
			prev := "<none>"
			for p := h; p != ""; p = next[p] {
				m := mk(p)
				tp := c.Cfg.Pubs[p].Topics
				t.log(jev{"e": "call.pub", "p": p, "t": tp, "after": prev})
				err := j.Publish(m, tp)
				t.log(jev{"e": "ret.pub", "p": p, "v": jerrClass(err)})
				prev = p
			}
		}()
	}
	down := func(k string, ctx context.Context) {
		t.mu.Lock()
		t.downs[ctx] = k
		t.mu.Unlock()
		_, hasDeadline := ctx.Deadline()
		t.log(jev{"e": "call.down", "k": k, "ctxdone": ctx.Err() != nil || hasDeadline})
		err := j.Shutdown(ctx)
		t.log(jev{"e": "ret.down", "k": k, "v": jerrClass(err)})
	}
	for k, ctxDone := range c.Cfg.Downs {
		k, ctxDone := k, ctxDone
		wg.Add(1)
		go func() {
			defer wg.Done()
			ctx, cc := context.WithCancelCause(context.WithValue(context.Background(), ctxKey{}, k))
			if ctxDone {
				cc(errCause)
			}
			defer cc(nil)
			down(k, ctx)
		}()
	}

	stop := make(chan struct{})
	finished := make(chan struct{})
	go st.watch(stop, finished)
	deadline := time.After(10 * time.Second)
	timedOut := false
	select {
	case <-finished:
	case <-deadline:
		timedOut = true
	}
	if !timedOut {
		// the behaviour is over: end what remains - every subscription, then the provider
		cmu.Lock()
		for s, cancel := range cancels {
			if !cancelled[s] {
				t.log(jev{"e": "cancel", "s": s})
				cancel()
			}
		}
		cmu.Unlock()
		fin := make(chan struct{})
		go func() {
			down("k0", context.WithValue(context.Background(), ctxKey{}, "k0"))
			wg.Wait()
			t.waitFor("loop.exit")
			close(fin)
		}()
		select {
		case <-fin:
		case <-deadline:
			timedOut = true
		}
	}
	close(stop)
	st.mu.Lock()
	stats.Cases++
	stats.Steps += len(st.steps)
	stats.StepsTaken += st.ndone
	stats.Mismatched += st.mismatch
	stats.Extra += st.extra
	stats.Skipped += st.skipped
	if st.stalled {
		stats.Stalled++
	} else {
		stats.Steered++
		if st.mismatch == 0 && st.skipped == 0 && st.outOfOrder == 0 && st.ndone == len(st.steps) {
			exact = true
		}
	}
	st.free = true
	st.cond.Broadcast()
	st.mu.Unlock()
	if timedOut {
		buf := make([]byte, 1<<18)
		n := runtime.Stack(buf, true)
		t.mu.Lock()
		evs = append([]jev(nil), t.evs...)
		t.mu.Unlock()
		return evs, true, string(buf[:n]), false
	}
	for _, c := range cancels {
		c()
	}
	t.mu.Lock()
	defer t.mu.Unlock()
	return t.evs, false, "", exact
}

// cmdJoeSteer: replays the behaviours of an ndjson file ({"cfg":..., "steps":[...]} per line); writes the traces of what the
// real Joe did; exit 3 = a call blocked, a Go panic kills the process.
func cmdJoeSteer(args []string) {
	fs := flag.NewFlagSet("joe-steer", flag.ExitOnError)
	inp := fs.String("in", "", "behaviours (ndjson)")
	outp := fs.String("o", "", "trace file (ndjson)")
	statp := fs.String("stats", "", "statistics (json)")
	from := fs.Int("from", 0, "first behaviour")
	n := fs.Int("n", 1<<30, "number of behaviours")
	fs.Parse(args)
	fi, err := os.Open(*inp)
	if err != nil {
		fatal("open: %v", err)
	}
	defer fi.Close()
	f, err := os.Create(*outp)
	if err != nil {
		fatal("create: %v", err)
	}
	defer f.Close()
	enc := json.NewEncoder(f)
	sc := bufio.NewScanner(fi)
	sc.Buffer(make([]byte, 1<<20), 1<<26)
	stats := &steerStats{}
	writeStats := func() {
		if *statp != "" {
			b, _ := json.Marshal(stats)
			os.WriteFile(*statp, b, 0o644)
		}
	}
	idx := -1
	for sc.Scan() {
		idx++
		if idx < *from || idx >= *from+*n {
			continue
		}
		var c steerCase
		if err := json.Unmarshal(sc.Bytes(), &c); err != nil {
			fatal("behaviour %d: %v", idx, err)
		}
		fmt.Fprintf(os.Stderr, "SCENARIO %d\n", idx)
		stats.Behaviours++
		for attempt := 0; attempt < 2; attempt++ {
			stats.Attempts++
			evs, blocked, dump, exact := runSteered(idx+attempt*7, &c, stats)
			for _, e := range evs {
				if e["e"] == "reset" {
					e["seed"] = idx
				}
				enc.Encode(e)
			}
			if blocked {
				fmt.Fprintf(os.Stderr, "BLOCKED %d\n%s\n", idx, dump)
				f.Sync()
				writeStats()
				os.Exit(3)
			}
			if exact {
				stats.Exact++
				break
			}
		}
	}
	writeStats()
	_ = strconv.Itoa
}

func init() {
	commands["joe-steer"] = cmdJoeSteer
}
