package main

import (
	"context"
	"encoding/json"
	"flag"
	"fmt"
	"io"
	"math/rand"
	"net/http"
	"runtime"
	"sort"
	"strconv"
	"strings"
	"sync"
	"sync/atomic"
	"time"

	sse "github.com/tmaxmax/go-sse"
)

// ---- behaviours exported by Dispatch.tla ----

type dpOp struct {
	Op   string `json:"op"`
	Kind string `json:"kind"`
	Typ  string `json:"typ"`
	Cb   int    `json:"cb"`
	Recv []int  `json:"recv"`
}

type dpBeh struct {
	Ops []dpOp `json:"ops"`
}

// stepReader is a response body fed one chunk at a time; every Read first announces itself, so the
// driver knows that the callbacks of the previous event have run when the next Read arrives.
type stepReader struct {
	ctx  context.Context
	req  chan struct{}
	data chan []byte
}

func (r *stepReader) Read(p []byte) (int, error) {
	select {
	case r.req <- struct{}{}:
	case <-r.ctx.Done():
		return 0, r.ctx.Err()
	}
	select {
	case b := <-r.data:
		if b == nil {
			return 0, io.EOF // the stream ends here
		}
		return copy(p, b), nil
	case <-r.ctx.Done():
		return 0, r.ctx.Err()
	}
}

type dpCall struct {
	cb   int
	step int
}

// dpHangs counts registry calls that did not return: after a few of them the verdict is in, the remaining behaviours are skipped
var dpHangs atomic.Int32

// dpType maps the spec's type names to event types: "NUL" stands for the type "\x00" (a byte no field value is barred from)
func dpType(t string) string {
	if t == "NUL" {
		return "\x00"
	}
	return t
}

func runDispatch(b *dpBeh) (problems []string) {
	if dpHangs.Load() >= 3 {
		return nil
	}
	// a subscribe / unsubscribe call that does not come back (e.g. a registry lock that dispatch never releases) ends the behaviour
	guarded := func(what string, f func()) bool {
		done := make(chan struct{})
		go func() { f(); close(done) }()
		select {
		case <-done:
			return true
		case <-time.After(5 * time.Second):
			dpHangs.Add(1)
			problems = append(problems, what+": the call did not return within 5 s; no further event can reach the callbacks still subscribed")
			return false
		}
	}
	ctx, cancel := context.WithCancel(context.Background())
	defer cancel()
	rd := &stepReader{ctx: ctx, req: make(chan struct{}), data: make(chan []byte)}
	c := &sse.Client{
		HTTPClient: &http.Client{Transport: rtFunc(func(q *http.Request) (*http.Response, error) {
			return &http.Response{StatusCode: 200, Body: io.NopCloser(rd), Header: http.Header{}, Request: q}, nil
		})},
		ResponseValidator: sse.NoopValidator,
		Backoff:           sse.Backoff{MaxRetries: -1},
	}
	q, _ := http.NewRequestWithContext(ctx, http.MethodGet, "http://verif.invalid/", http.NoBody)
	cn := c.NewConnection(q)
	var mu sync.Mutex
	var calls []dpCall
	inCallback := false
	removers := map[int]sse.EventCallbackRemover{}
	connDone := make(chan error, 1)
	wait := func(what string) bool {
		select {
		case <-rd.req:
			return true
		case err := <-connDone:
			problems = append(problems, fmt.Sprintf("%s: Connect returned early: %v", what, err))
			return false
		case <-time.After(10 * time.Second):
			problems = append(problems, what+": the connection did not ask for more input within 10 s")
			return false
		}
	}
	for k, op := range b.Ops {
		k := k
		switch op.Op {
		case "sub":
			idx := op.Cb
			cb := func(e sse.Event) {
				mu.Lock()
				if inCallback {
					problems = append(problems, "two callbacks ran at the same time")
				}
				inCallback = true
				step, _ := strconv.Atoi(e.Data)
				calls = append(calls, dpCall{idx, step})
				if e.Type != dpType(b.Ops[step].Typ) {
					problems = append(problems, fmt.Sprintf("callback %d got an event of type %q for step %d (type %q)", idx, e.Type, step, b.Ops[step].Typ))
				}
				inCallback = false
				mu.Unlock()
				if b.Ops[step].Kind == "stop" {
					// a terminal event: the callback ends the connection; the callbacks after it still get the event
					cancel()
				}
			}
			typ := dpType(op.Typ)
			if !guarded("hang in subscribe", func() {
				switch {
				case op.Kind == "all":
					removers[idx] = cn.SubscribeToAll(cb)
				case typ == "":
					removers[idx] = cn.SubscribeMessages(cb)
				default:
					removers[idx] = cn.SubscribeEvent(typ, cb)
				}
			}) {
				return
			}
		case "unsub":
			rm := removers[op.Cb]
			if !guarded("hang in unsubscribe", func() { rm() }) {
				return
			}
		case "connect":
			go func() { connDone <- cn.Connect() }()
			if !wait("connect") {
				return
			}
		case "event":
			var sb strings.Builder
			if op.Typ != "" {
				sb.WriteString("event: " + dpType(op.Typ) + "\n")
			}
			sb.WriteString("data: " + strconv.Itoa(k) + "\n")
			if op.Kind != "atend" {
				sb.WriteString("\n")
			}
			select {
			case rd.data <- []byte(sb.String()):
			case <-time.After(10 * time.Second):
				problems = append(problems, "the connection does not read")
				return
			}
			if op.Kind == "atend" {
				// no blank line: the stream ends after the event's last line, the pending event is dispatched at the end of input
				if !wait("event " + strconv.Itoa(k)) {
					return
				}
				select {
				case rd.data <- nil:
				case <-time.After(10 * time.Second):
					problems = append(problems, "the connection does not read")
					return
				}
				select {
				case <-connDone:
				case <-time.After(10 * time.Second):
					problems = append(problems, "Connect did not return within 10 s of the end of the stream")
					return
				}
			} else if op.Kind == "stop" {
				// the context is cancelled from inside a callback: Connect returns once the dispatch is over (or reads once more first)
				select {
				case <-rd.req:
					select {
					case <-connDone:
					case <-time.After(10 * time.Second):
						problems = append(problems, "Connect did not return within 10 s of a callback cancelling the context")
						return
					}
				case <-connDone:
				case <-time.After(10 * time.Second):
					problems = append(problems, "Connect did not return within 10 s of a callback cancelling the context")
					return
				}
			} else if !wait("event " + strconv.Itoa(k)) {
				return
			}
			// exactly the callbacks the spec names, each once
			mu.Lock()
			got := map[int]int{}
			for _, cl := range calls {
				if cl.step == k {
					got[cl.cb]++
				}
			}
			mu.Unlock()
			want := map[int]bool{}
			for _, i := range op.Recv {
				want[i] = true
			}
			var gl []string
			for i, n := range got {
				gl = append(gl, fmt.Sprintf("%dx%d", i, n))
				if !want[i] || n != 1 {
					problems = append(problems, fmt.Sprintf("step %d (event type %q): callback %d invoked %d times, spec: receivers %v", k, op.Typ, i, n, op.Recv))
				}
			}
			for i := range want {
				if got[i] == 0 {
					sort.Strings(gl)
					problems = append(problems, fmt.Sprintf("step %d (event type %q): callback %d not invoked (invoked: %v), spec: receivers %v", k, op.Typ, i, gl, op.Recv))
				}
			}
		}
	}
	// every callback saw its events in stream order
	mu.Lock()
	last := map[int]int{}
	for _, cl := range calls {
		if p, ok := last[cl.cb]; ok && p >= cl.step {
			problems = append(problems, fmt.Sprintf("callback %d saw step %d after step %d", cl.cb, cl.step, p))
		}
		last[cl.cb] = cl.step
	}
	mu.Unlock()
	return
}

func cmdDispatch(args []string) {
	fs := flag.NewFlagSet("dispatch", flag.ExitOnError)
	in := fs.String("in", "", "ndjson behaviours exported by Dispatch.tla")
	out := fs.String("out", "", "result file")
	fs.Parse(args)
	res := newResult()
	n := eachLine(*in, runtime.NumCPU()*2, func(line []byte, idx int) {
		var b dpBeh
		if err := json.Unmarshal(line, &b); err != nil {
			fatal("bad behaviour line %d: %v", idx, err)
		}
		probs := runDispatch(&b)
		res.eval(1)
		var sb strings.Builder
		nev := 0
		for _, op := range b.Ops {
			fmt.Fprintf(&sb, "%s(%s%s%d) ", op.Op, op.Kind, op.Typ, op.Cb)
			if op.Op == "event" {
				nev++
			}
		}
		if nev > 0 {
			res.nontrivial(sb.String())
		}
		for _, p := range probs {
			res.violate(p+"  [ops: "+sb.String()+"]", "dispatch:"+strings.SplitN(p, ":", 2)[0][:min(8, len(strings.SplitN(p, ":", 2)[0]))], map[string]any{"driver": "dispatch", "behaviour": b})
		}
		if idx%997 == 0 {
			res.sample(map[string]any{"ops": sb.String()})
		}
	})
	res.Behaviours = n
	res.write(*out)
}

// cmdDispatchRace: subscribe / unsubscribe from other goroutines while events are dispatched; meant to be
// run from the -race build: the race detector is the observation instrument for C13's last clause.
func cmdDispatchRace(args []string) {
	fs := flag.NewFlagSet("dispatch-race", flag.ExitOnError)
	out := fs.String("out", "", "result file")
	events := fs.Int("events", 300, "events per run")
	fs.Parse(args)
	res := newResult()
	seed := envSeed()
	for run := 0; run < 4; run++ {
		ctx, cancel := context.WithCancel(context.Background())
		rd := &stepReader{ctx: ctx, req: make(chan struct{}), data: make(chan []byte)}
		c := &sse.Client{
			HTTPClient: &http.Client{Transport: rtFunc(func(q *http.Request) (*http.Response, error) {
				return &http.Response{StatusCode: 200, Body: io.NopCloser(rd), Header: http.Header{}, Request: q}, nil
			})},
			ResponseValidator: sse.NoopValidator,
			Backoff:           sse.Backoff{MaxRetries: -1},
		}
		q, _ := http.NewRequestWithContext(ctx, http.MethodGet, "http://verif.invalid/", http.NoBody)
		cn := c.NewConnection(q)
		var delivered sync.Map
		var lateCalls atomic.Int64
		done := make(chan error, 1)
		go func() { done <- cn.Connect() }()
		var wg sync.WaitGroup
		stop := make(chan struct{})
		for g := 0; g < 4; g++ {
			g := g
			wg.Add(1)
			go func() {
				defer wg.Done()
				rng := rand.New(rand.NewSource(seed*31 + int64(run*7+g)))
				type subn struct {
					remove  sse.EventCallbackRemover
					removed *atomic.Bool
				}
				var subs []subn
				unsub := func(k int) {
					sn := subs[k]
					if rng.Intn(3) == 0 {
						// the same unsubscribe function called from two goroutines at once: as soon as either call has
						// returned the callback must never run again
						second := make(chan struct{})
						go func() {
							sn.remove()
							sn.removed.Store(true)
							close(second)
						}()
						sn.remove()
						sn.removed.Store(true)
						<-second
					} else {
						sn.remove()
						sn.removed.Store(true) // from here on the callback must never run again
					}
					if rng.Intn(2) == 0 {
						sn.remove() // calling it again is harmless
					}
					subs = append(subs[:k], subs[k+1:]...)
				}
				for {
					select {
					case <-stop:
						for len(subs) > 0 {
							unsub(0)
						}
						return
					default:
					}
					if len(subs) >= 6 {
						unsub(rng.Intn(len(subs)))
						continue
					}
					removed := new(atomic.Bool)
					slow := rng.Intn(4) == 0
					cb := func(e sse.Event) {
						if removed.Load() {
							lateCalls.Add(1)
						}
						delivered.Store(e.Data, true)
						if slow {
							time.Sleep(30 * time.Microsecond) // a dispatch in flight: the registry stays read-locked meanwhile
						}
					}
					switch rng.Intn(4) {
					case 0:
						subs = append(subs, subn{cn.SubscribeToAll(cb), removed})
					case 1:
						subs = append(subs, subn{cn.SubscribeEvent([]string{"a", "b", ""}[rng.Intn(3)], cb), removed})
					case 2:
						subs = append(subs, subn{cn.SubscribeMessages(cb), removed})
					default:
						if len(subs) > 0 {
							unsub(rng.Intn(len(subs)))
						}
					}
					runtime.Gosched()
				}
			}()
		}
		for k := 0; k < *events; k++ {
			<-rd.req
			typ := []string{"a", "b", ""}[k%3]
			s := "data: " + strconv.Itoa(k) + "\n\n"
			if typ != "" {
				s = "event: " + typ + "\n" + s
			}
			rd.data <- []byte(s)
		}
		<-rd.req
		close(stop)
		wg.Wait()
		cancel()
		<-done
		res.eval(1)
		res.nontrivial("run" + strconv.Itoa(run))
		if n := lateCalls.Load(); n > 0 {
			res.violate(fmt.Sprintf("%d callback invocations after the callback's unsubscribe function had returned (run %d)", n, run), "dispatch:late", map[string]any{"driver": "dispatch-race", "run": run})
		}
	}
	res.sample(map[string]any{"runs": 4, "events_per_run": *events, "goroutines_subscribing_and_unsubscribing": 4})
	res.write(*out)
}

func init() {
	commands["dispatch"] = cmdDispatch
	commands["dispatch-race"] = cmdDispatchRace
}
