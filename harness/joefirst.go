package main

import (
	"context"
	"math/rand"
	"runtime"
	"strconv"
	"sync"
	"sync/atomic"
	"time"

	sse "github.com/tmaxmax/go-sse"
)

// firstUseScenario: the calls that find a Joe that was never used race each other - whoever comes first
// initialises the provider while the others are already past their own j.init().  One scenario is a batch
// of trials on fresh providers (the window is a few allocations wide, so the start of the second call is
// swept over it); every trial is a scenario of its own in the trace ("reset" event), validated by
// JoeTrace.tla like every other, and a call that does not come back ends the batch as blocked (C07).
func firstUseScenario(seed int64) (evs []jev, blocked bool, dump string) {
	rng := rand.New(rand.NewSource(seed))
	runtime.GOMAXPROCS([]int{2, 4, 16}[rng.Intn(3)])
	const trials = 150
	for tr := 0; tr < trials; tr++ {
		t := newTracer(seed*1000+int64(tr), 0)
		sse.VerifHook = t.hook
		kind := rng.Intn(3) // 0: Subscribe x Shutdown, 1: Subscribe x Publish, 2: Subscribe x Subscribe x Shutdown
		j := &sse.Joe{}
		t.evs = append(t.evs, jev{"e": "reset", "seed": seed, "procs": runtime.GOMAXPROCS(0), "replayer": "none", "auto": false, "focus": "firstuse", "cap": 0, "trial": tr})
		var start atomic.Int32
		var wg sync.WaitGroup
		spin := func(n int) {
			for start.Load() == 0 {
			}
			for i := 0; i < n; i++ {
				_ = start.Load()
			}
		}
		offs := tr % 40 * 3
		cancels := []context.CancelFunc{}
		sub := func(id string, off int) {
			ctx, cancel := context.WithCancel(context.Background())
			cancels = append(cancels, cancel)
			w := &jw{t: t, id: id, cancel: cancel}
			t.subs[w] = id
			wg.Add(1)
			go func() {
				defer wg.Done()
				spin(off)
				t.log(jev{"e": "call.sub", "s": id, "t": []string{""}, "lid": "", "lidset": false, "lidname": ""})
				err := j.Subscribe(ctx, sse.Subscription{Client: w, Topics: []string{""}})
				t.log(jev{"e": "ret.sub", "s": id, "v": subClass(err)})
			}()
		}
		down := func(k string, off int, wait bool) {
			ctx := context.WithValue(context.Background(), ctxKey{}, k)
			t.downs[ctx] = k
			f := func() {
				if wait {
					spin(off)
				}
				t.log(jev{"e": "call.down", "k": k, "ctxdone": false})
				err := j.Shutdown(ctx)
				t.log(jev{"e": "ret.down", "k": k, "v": jerrClass(err)})
			}
			if !wait {
				f()
				return
			}
			wg.Add(1)
			go func() { defer wg.Done(); f() }()
		}
		pub := func(name string, off int) {
			m := &sse.Message{}
			m.ID = sse.ID(name)
			m.AppendData(name)
			t.msgs[m] = name
			wg.Add(1)
			go func() {
				defer wg.Done()
				spin(off)
				t.log(jev{"e": "call.pub", "p": name, "t": []string{""}, "after": "<none>"})
				err := j.Publish(m, []string{""})
				t.log(jev{"e": "ret.pub", "p": name, "v": jerrClass(err)})
			}()
		}
		a, b := 0, offs
		if tr%2 == 1 {
			a, b = offs, 0
		}
		switch kind {
		case 0:
			sub("s0", a)
			down("k1", b, true)
		case 1:
			sub("s0", a)
			pub("p0k0", b)
		case 2:
			sub("s0", a)
			sub("s1", b)
			down("k1", (a+b)/2, true)
		}
		time.Sleep(20 * time.Microsecond) // let the goroutines reach their spin
		start.Store(1)
		fin := make(chan struct{})
		go func() {
			if kind == 1 {
				// the subscription lasts until it is cancelled; the publish returns by itself
				time.Sleep(50 * time.Microsecond)
			}
			for i, c := range cancels {
				t.log(jev{"e": "cancel", "s": "s" + strconv.Itoa(i)})
				c()
			}
			wg.Wait()
			down("k0", 0, false)
			t.waitFor("loop.exit")
			close(fin)
		}()
		select {
		case <-fin:
		case <-time.After(5 * time.Second):
			buf := make([]byte, 1<<18)
			n := runtime.Stack(buf, true)
			t.mu.Lock()
			evs = append(evs, t.evs...)
			t.mu.Unlock()
			sse.VerifHook = nil
			return evs, true, string(buf[:n])
		}
		t.mu.Lock()
		evs = append(evs, t.evs...)
		t.mu.Unlock()
	}
	sse.VerifHook = nil
	return evs, false, ""
}
