package main

import (
	"context"
	"encoding/json"
	"errors"
	"flag"
	"fmt"
	"io"
	"log/slog"
	"net/http"
	"net/http/httptest"
	"runtime"
	"strings"

	sse "github.com/tmaxmax/go-sse"
)

// ---- behaviours exported by Session.tla ----

type seOp struct {
	Op    string `json:"op"`
	M     string `json:"m"`
	Err   bool   `json:"err"`
	Where string `json:"where"`
}

type seBeh struct {
	Shape string `json:"shape"`
	Fault struct {
		Kind string `json:"kind"`
		N    int    `json:"n"`
	} `json:"fault"`
	Ops []seOp              `json:"ops"`
	Log [][]json.RawMessage `json:"log"`
}

// recording, fault-injecting response writers of every shape
type seCore struct {
	hdr        http.Header
	log        []string // "H" (Content-Type set at the time of the next call), "F+", "F-", "W:<bytes>"
	status     int
	failFlush  int // the n-th flush fails
	nflush     int
	failWrite  int // the n-th Write call fails, accepting half
	nwrite     int
	hdrLogged  bool
	sentinel   []string
	writeCalls int
}

// noteHeader logs "H" whenever the code has (again) assigned the Content-Type since the last underlying
// call. After logging, the entry is replaced by a private copy, so that a new assignment (another slice) is
// observable and an append (Header().Add) shows as a second value.
func (c *seCore) noteHeader() {
	v := c.hdr["Content-Type"]
	if len(v) == 0 {
		return
	}
	if c.sentinel != nil && len(v) == 1 && &v[0] == &c.sentinel[0] {
		return // untouched since we last looked
	}
	if len(v) == 1 && v[0] == "text/event-stream" {
		c.hdrLogged = true
		c.log = append(c.log, "H")
	} else {
		c.log = append(c.log, fmt.Sprintf("H!%q", v))
	}
	c.sentinel = []string{v[len(v)-1]}
	c.hdr["Content-Type"] = c.sentinel
}
func (c *seCore) Header() http.Header { return c.hdr }
func (c *seCore) WriteHeader(code int) {
	c.noteHeader()
	c.status = code
	c.log = append(c.log, fmt.Sprintf("S:%d", code))
}
func (c *seCore) Write(p []byte) (int, error) {
	c.noteHeader()
	c.nwrite++
	if c.nwrite == c.failWrite {
		n := len(p) / 2
		c.log = append(c.log, "W:"+string(p[:n]), "WERR")
		return n, errBoom
	}
	c.log = append(c.log, "W:"+string(p))
	return len(p), nil
}
func (c *seCore) flush() error {
	c.noteHeader()
	c.nflush++
	if c.nflush == c.failFlush {
		c.log = append(c.log, "F-")
		return errBoom
	}
	c.log = append(c.log, "F+")
	return nil
}

type seFlusher struct{ *seCore }

func (f seFlusher) Flush() { _ = f.flush() }

type seFlushErr struct{ *seCore }

func (f seFlushErr) FlushError() error { return f.flush() }

// seBoth offers both, like net/http's response writer: the error-reporting method must be preferred
type seBoth struct{ *seCore }

func (f seBoth) Flush()            { _ = f.flush() }
func (f seBoth) FlushError() error { return f.flush() }

type sePlain struct{ *seCore } // cannot flush

type seWrap struct {
	http.ResponseWriter
	inner http.ResponseWriter
}

func (w seWrap) Unwrap() http.ResponseWriter { return w.inner }

func makeWriter(shape string, c *seCore) http.ResponseWriter {
	switch shape {
	case "flusher":
		return seFlusher{c}
	case "flusherr":
		return seFlushErr{c}
	case "both":
		return seBoth{c}
	case "wrap1":
		return seWrap{sePlain{c}, seFlushErr{c}}
	case "wrap2":
		return seWrap{sePlain{c}, seWrap{sePlain{c}, seFlushErr{c}}}
	case "wrapflusher":
		return seWrap{sePlain{c}, seFlusher{c}}
	case "none":
		return sePlain{c}
	}
	fatal("unknown shape %q", shape)
	return nil
}

func seMessage(name string) *sse.Message {
	m := &sse.Message{}
	switch name {
	case "empty":
	case "m1":
		m.ID = sse.ID("1")
		m.AppendData("hello", "two\nlines")
	case "m2":
		m.Type = sse.Type("t")
		m.AppendComment("c")
		m.AppendData("x")
	}
	return m
}

// abstract turns the concrete call log into the spec's vocabulary: H, F+/F-, and per message W(msg, full|cut)
func seAbstract(log []string, sent []string) (out []string, problems []string) {
	i := 0
	si := 0
	for i < len(log) {
		e := log[i]
		switch {
		case e == "H" || e == "F+" || e == "F-" || strings.HasPrefix(e, "H!"):
			out = append(out, e)
			i++
		case strings.HasPrefix(e, "S:"):
			out = append(out, e)
			i++
		case strings.HasPrefix(e, "W:") || e == "WERR":
			var sb strings.Builder
			cut := false
			for i < len(log) && (strings.HasPrefix(log[i], "W:") || log[i] == "WERR") {
				if log[i] == "WERR" {
					cut = true
					i++
					break
				}
				sb.WriteString(log[i][2:])
				// one message's writes end with its blank line
				i++
				if strings.HasSuffix(sb.String(), "\n\n") && si < len(sent) && sb.String() == seMessage(sent[si]).String() {
					break
				}
			}
			if si >= len(sent) {
				problems = append(problems, fmt.Sprintf("bytes %q were written that belong to no Send", sb.String()))
				return
			}
			full := seMessage(sent[si]).String()
			switch {
			case !cut && sb.String() == full:
				out = append(out, "W:"+sent[si]+":full")
			case cut && strings.HasPrefix(full, sb.String()) && sb.Len() < len(full):
				out = append(out, "W:"+sent[si]+":cut")
			default:
				problems = append(problems, fmt.Sprintf("Send of %s wrote %q (cut=%v), its encoding is %q", sent[si], sb.String(), cut, full))
			}
			si++
		default:
			i++
		}
	}
	return
}

func seSpecLog(b *seBeh) []string {
	var out []string
	for _, e := range b.Log {
		var kind string
		json.Unmarshal(e[0], &kind)
		switch kind {
		case "H":
			out = append(out, "H")
		case "F":
			var ok bool
			json.Unmarshal(e[1], &ok)
			if ok {
				out = append(out, "F+")
			} else {
				out = append(out, "F-")
			}
		case "W":
			var m, how string
			json.Unmarshal(e[1], &m)
			json.Unmarshal(e[2], &how)
			out = append(out, "W:"+m+":"+how)
		}
	}
	return out
}

// seFirstH keeps what the property speaks about: the first assignment of the header, and one successful flush
// per run of successful flushes (a Flush with nothing new to push may or may not reach the writer).
func seFirstH(log []string) []string {
	out := make([]string, 0, len(log))
	seen := false
	for _, e := range log {
		if e == "F+" && len(out) > 0 && out[len(out)-1] == "F+" {
			continue
		}
		if e == "H" {
			if seen {
				continue
			}
			seen = true
		}
		out = append(out, e)
	}
	return out
}

func cmdSession(args []string) {
	fs := flag.NewFlagSet("session", flag.ExitOnError)
	in := fs.String("in", "", "ndjson behaviours exported by Session.tla")
	out := fs.String("out", "", "result file")
	fs.Parse(args)
	res := newResult()
	n := eachLine(*in, runtime.NumCPU(), func(line []byte, idx int) {
		var b seBeh
		if err := json.Unmarshal(line, &b); err != nil {
			fatal("bad behaviour line %d: %v", idx, err)
		}
		// a write fault "in the k-th Send that writes" is tried at every Write call of that Send
		writeFaultPositions := []int{0}
		if b.Fault.Kind == "write" {
			// count the Write calls of the Sends before and of the k-th writing Send on a fault-free run
			before, within, nw := 0, 0, 0
			for _, op := range b.Ops {
				if op.Op == "send" && op.M != "empty" && op.Where != "upgrade" {
					nw++
					c := &seCore{hdr: http.Header{}}
					seMessage(op.M).WriteTo(seFlusher{c})
					if nw < b.Fault.N {
						before += c.nwrite
					} else if nw == b.Fault.N {
						within = c.nwrite
					}
				}
			}
			writeFaultPositions = nil
			for w := 1; w <= within; w++ {
				writeFaultPositions = append(writeFaultPositions, before+w)
			}
		}
		for _, wf := range writeFaultPositions {
			c := &seCore{hdr: http.Header{}, failWrite: wf}
			if b.Fault.Kind == "flush" {
				c.failFlush = b.Fault.N
			}
			w := makeWriter(b.Shape, c)
			r := httptest.NewRequest(http.MethodGet, "http://verif.invalid/", http.NoBody)
			sess, err := sse.Upgrade(w, r)
			res.eval(1)
			desc := fmt.Sprintf("shape %s fault %s/%d (write call %d) ops %v", b.Shape, b.Fault.Kind, b.Fault.N, wf, b.Ops)
			det := map[string]any{"driver": "session", "behaviour": b, "write_fault_at_call": wf}
			if err != nil {
				res.violate("Upgrade failed on a flushing writer: "+err.Error()+"  ["+desc+"]", "session:upgrade", det)
				continue
			}
			var sent []string
			for k, op := range b.Ops {
				var e error
				if op.Op == "send" {
					if op.M != "empty" && op.Where != "upgrade" {
						sent = append(sent, op.M)
					}
					e = sess.Send(seMessage(op.M))
				} else {
					e = sess.Flush()
				}
				if (e != nil) != op.Err {
					res.violate(fmt.Sprintf("call %d (%s %s) returned %v, spec: error=%v (%s)  [%s]", k+1, op.Op, op.M, e, op.Err, op.Where, desc), "session:return", det)
				}
				if e != nil && !errors.Is(e, errBoom) {
					res.violate(fmt.Sprintf("call %d returned %v instead of the writer's error  [%s]", k+1, e, desc), "session:return", det)
				}
			}
			got, probs := seAbstract(c.log, sent)
			for _, p := range probs {
				res.violate(p+"  ["+desc+"]", "session:body", det)
			}
			// only the first "H" matters to the property (the header is in place before anything reaches the
			// client); whether a retried upgrade assigns it again is the implementation's business
			want := seFirstH(seSpecLog(&b))
			got = seFirstH(got)
			if len(probs) == 0 && strings.Join(got, " ") != strings.Join(want, " ") {
				res.violate(fmt.Sprintf("underlying writer saw %v, spec %v  [%s]", got, want, desc), "session:log", det)
			}
			if c.status != 0 {
				res.violate("the session wrote a status code  ["+desc+"]", "session:status", det)
			}
		}
		if len(b.Ops) > 1 {
			res.nontrivial(string(line))
		}
		if idx%499 == 0 {
			res.sample(map[string]any{"shape": b.Shape, "fault": b.Fault, "ops": b.Ops, "expected_log": seSpecLog(&b)})
		}
	})
	res.Behaviours = n
	res.write(*out)
}

// ---- ServeHTTP ----

type recProvider struct {
	pubs    [][]string
	subs    []sse.Subscription
	err     error
	send    bool
	sendErr error
}

func (p *recProvider) Subscribe(_ context.Context, s sse.Subscription) error {
	p.subs = append(p.subs, s)
	if p.err == nil && p.send {
		// the session starts streaming: the event-stream header must be the one in effect
		p.sendErr = s.Client.Send(seMessage("m1"))
		if p.sendErr == nil {
			p.sendErr = s.Client.Flush()
		}
	}
	return p.err
}
func (p *recProvider) Publish(_ *sse.Message, tp []string) error {
	p.pubs = append(p.pubs, append([]string(nil), tp...))
	return nil
}
func (p *recProvider) Shutdown(context.Context) error { return nil }

var errProvider = errors.New("provider refuses")

type svOp struct {
	Op string `json:"op"`
	C  struct {
		Flushable bool   `json:"flushable"`
		Lid       string `json:"lid"`
		OnSession string `json:"onsession"`
		Provider  string `json:"provider"`
	} `json:"c"`
	E struct {
		Subscribed bool   `json:"subscribed"`
		Status     int    `json:"status"`
		Wrote      string `json:"wrote"`
		LidSet     bool   `json:"lidset"`
		Topics     string `json:"topics"`
	} `json:"e"`
	T  string `json:"t"`
	PE string `json:"pe"`
}

func topicsOK(got []string, want string) bool {
	switch want {
	case "given2":
		return len(got) == 2 && got[0] == "a" && got[1] == "b"
	case "given1":
		return len(got) == 1 && got[0] == "a"
	case "named+default":
		return len(got) == 2 && got[0] == "a" && got[1] == sse.DefaultTopic
	}
	return len(got) == 1 && got[0] == sse.DefaultTopic
}

// cmdServe runs every exported sequence of operations (requests through Server.ServeHTTP, Server.Publish) in this one
// process: what each operation does must be what ServeHTTP.tla says of that operation alone.
func cmdServe(args []string) {
	fs := flag.NewFlagSet("serve", flag.ExitOnError)
	in := fs.String("in", "", "sequences exported by ServeHTTP.tla (ndjson)")
	out := fs.String("out", "", "result file")
	fs.Parse(args)
	res := newResult()
	nseq := eachLine(*in, 1, func(line []byte, idx int) {
		var seq struct {
			Ops    []svOp `json:"ops"`
			Logger string `json:"logger,omitempty"` // "unset" | "nil" | "set": Server.Logger (chosen by the driver, kept in replay files)
		}
		if err := json.Unmarshal(line, &seq); err != nil {
			fatal("bad sequence: %v", err)
		}
		if seq.Logger == "" {
			seq.Logger = []string{"unset", "nil", "set"}[idx%3]
		}
		shapes := []string{"flusher", "flusherr", "wrap2"}
		if len(seq.Ops) > 1 {
			shapes = shapes[idx%3 : idx%3+1]
		}
		for _, shape := range shapes {
			var descs []string
			for k, op := range seq.Ops {
				cs := op
				if cs.Op == "publish" {
					p := &recProvider{}
					s := &sse.Server{Provider: p}
					var tp []string
					switch cs.T {
					case "one":
						tp = []string{"a"}
					case "two":
						tp = []string{"a", "b"}
					case "named+default":
						tp = []string{"a", sse.DefaultTopic}
					}
					err := s.Publish(seMessage("m1"), tp...)
					res.eval(1)
					descs = append(descs, "publish("+cs.T+")")
					if err != nil || len(p.pubs) != 1 || !topicsOK(p.pubs[0], cs.PE) {
						res.violate(fmt.Sprintf("operation %d: Server.Publish with topics %q handed the provider %q (error %v), spec: %s  [%s]", k+1, tp, p.pubs, err, cs.PE, strings.Join(descs, " ; ")),
							"serve:publish", map[string]any{"driver": "serve", "behaviour": seq})
					}
					continue
				}
				sh := shape
				if !cs.C.Flushable {
					sh = "none"
				}
				c := &seCore{hdr: http.Header{}}
				w := makeWriter(sh, c)
				r := httptest.NewRequest(http.MethodGet, "http://verif.invalid/", http.NoBody)
				switch cs.C.Lid {
				case "empty":
					r.Header["Last-Event-Id"] = []string{""}
				case "ok":
					r.Header["Last-Event-Id"] = []string{"id 42"}
				case "multiline":
					r.Header["Last-Event-Id"] = []string{"a\nb"}
				}
				p := &recProvider{send: true}
				switch cs.C.Provider {
				case "err":
					p.err = errProvider
				case "errcanceled":
					p.err = fmt.Errorf("%w: %w", errProvider, context.Canceled)
				}
				s := &sse.Server{Provider: p}
				// logging is an observer: with or without a logger the request is served the same way
				switch seq.Logger {
				case "nil":
					s.Logger = func(*http.Request) *slog.Logger { return nil }
				case "set":
					s.Logger = func(*http.Request) *slog.Logger { return slog.New(slog.NewTextHandler(io.Discard, nil)) }
				}
				called := false
				switch cs.C.OnSession {
				case "reject":
					s.OnSession = func(http.ResponseWriter, *http.Request) ([]string, bool) { called = true; return []string{"x"}, false }
				case "accept-no-topics":
					s.OnSession = func(http.ResponseWriter, *http.Request) ([]string, bool) { called = true; return nil, true }
				case "accept-topics":
					s.OnSession = func(w http.ResponseWriter, _ *http.Request) ([]string, bool) {
						called = true
						w.Header().Set("Content-Type", "application/json") // a middleware's leftover: the session must replace it
						return []string{"a", "b"}, true
					}
				case "accept-one-topic":
					s.OnSession = func(http.ResponseWriter, *http.Request) ([]string, bool) { called = true; return []string{"a"}, true }
				case "accept-named-and-default":
					s.OnSession = func(http.ResponseWriter, *http.Request) ([]string, bool) {
						called = true
						return []string{"a", sse.DefaultTopic}, true
					}
				case "accept-empty-topics":
					s.OnSession = func(http.ResponseWriter, *http.Request) ([]string, bool) { called = true; return []string{}, true }
				}
				s.ServeHTTP(w, r)
				res.eval(1)
				descs = append(descs, fmt.Sprintf("%+v writer=%s", cs.C, sh))
				desc := fmt.Sprintf("operation %d of: %s", k+1, strings.Join(descs, " ; "))
				if len(seq.Ops) == 1 {
					res.nontrivial(fmt.Sprintf("%+v/%s", cs.C, sh))
				} else {
					res.nontrivial(desc)
				}
				det := map[string]any{"driver": "serve", "behaviour": seq, "log": c.log}
				bad := func(f string, a ...any) { res.violate(fmt.Sprintf(f, a...)+"  ["+desc+"]", "serve:"+cs.E.Wrote, det) }
				if cs.C.Flushable && cs.C.OnSession != "unset" && !called {
					bad("OnSession was not called")
				}
				if (len(p.subs) == 1) != cs.E.Subscribed || len(p.subs) > 1 {
					bad("provider.Subscribe called %d times, spec: subscribed=%v", len(p.subs), cs.E.Subscribed)
				}
				if len(p.subs) == 1 {
					sub := p.subs[0]
					if sub.LastEventID.IsSet() != cs.E.LidSet || (cs.E.LidSet && sub.LastEventID.String() != "id 42") {
						bad("subscription has LastEventID set=%v %q, spec: set=%v", sub.LastEventID.IsSet(), sub.LastEventID.String(), cs.E.LidSet)
					}
					if !topicsOK(sub.Topics, cs.E.Topics) {
						bad("subscription has topics %q, spec: %s", sub.Topics, cs.E.Topics)
					}
					if _, ok := sub.Client.(*sse.Session); !ok {
						bad("subscription's client is %T, not the session", sub.Client)
					}
				}
				wrote := strings.Join(c.log, " ")
				switch cs.E.Wrote {
				case "nothing":
					if cs.E.Subscribed {
						// the provider sent one message through the session: header, flush, its bytes, flush - nothing else
						got, probs := seAbstract(c.log, []string{"m1"})
						got = seFirstH(got)
						if len(probs) > 0 || strings.Join(got, " ") != "H F+ W:m1:full F+" || c.status != 0 || p.sendErr != nil {
							bad("a session that streamed one message shows %v (problems %v, status %d, send error %v), spec: [H F+ W:m1:full F+]", got, probs, c.status, p.sendErr)
						}
					} else if len(c.log) != 0 || c.status != 0 {
						bad("the server wrote %q although it must write nothing of its own", wrote)
					} else if len(c.hdr) != 0 {
						// the rejecting OnSession of this driver sets no header: whatever is there is the library's
						bad("the server left response headers %v on a request it must not answer itself", c.hdr)
					}
				default:
					if c.status != 500 {
						bad("status %d, spec: 500 (log %q)", c.status, wrote)
					}
					if cs.E.Wrote == "error" && !strings.Contains(wrote, errProvider.Error()) {
						bad("the 500 response does not carry the provider's error: %q", wrote)
					}
				}
			}
		}
		if idx%997 == 0 {
			res.sample(map[string]any{"ops": len(seq.Ops), "first": seq.Ops[0]})
		}
	})
	res.Behaviours = nseq
	res.write(*out)
}

func init() {
	commands["session"] = cmdSession
	commands["serve"] = cmdServe
}
