module verif/harness

go 1.22

require github.com/tmaxmax/go-sse v0.0.0

replace github.com/tmaxmax/go-sse => /repo
