package main

import (
	"context"
	"encoding/json"
	"errors"
	"flag"
	"fmt"
	"io"
	"net/http"
	"os"
	"runtime"
	"strings"

	sse "github.com/tmaxmax/go-sse"
)

// ---- token table exported by Bytes.tla ----

type byteTable struct {
	Exp  map[string][]int `json:"exp"`
	Fill map[string]int   `json:"fill"`
	str  map[string]string
}

func loadTable(path string) *byteTable {
	b, err := os.ReadFile(path)
	if err != nil {
		fatal("table: %v", err)
	}
	t := &byteTable{}
	if err := json.Unmarshal(b, t); err != nil {
		fatal("table: %v", err)
	}
	t.str = map[string]string{}
	for k, v := range t.Exp {
		bs := make([]byte, len(v))
		for i, x := range v {
			bs[i] = byte(x)
		}
		t.str[k] = string(bs)
	}
	for k, n := range t.Fill {
		t.str[k] = strings.Repeat("a", n)
	}
	return t
}

func (t *byteTable) expand(toks []string) string {
	var sb strings.Builder
	for _, k := range toks {
		s, ok := t.str[k]
		if !ok {
			fatal("unknown token %q", k)
		}
		sb.WriteString(s)
	}
	return sb.String()
}

// boundaries returns the byte offsets at which tokens start.
func (t *byteTable) boundaries(toks []string) []int {
	var out []int
	n := 0
	for _, k := range toks {
		out = append(out, n)
		n += len(t.str[k])
	}
	return out
}

// ---- behaviours exported by Stream.tla ----

type stEvent struct {
	ID   []string `json:"id"`
	Type []string `json:"type"`
	Data []string `json:"data"`
}

type stResult struct {
	Out     []stEvent  `json:"out"`
	Status  string     `json:"status"`
	Retries [][]string `json:"retries"`
	LastID  []string   `json:"lastId"`
}

type stPair struct {
	Read stResult `json:"read"`
	Conn stResult `json:"conn"`
}

type stBeh struct {
	Input []string `json:"input"`
	Clean stPair   `json:"clean"`
	Error stPair   `json:"error"`
}

type ev struct{ ID, Type, Data string }

func (t *byteTable) events(r stResult) []ev {
	out := make([]ev, 0, len(r.Out))
	for _, e := range r.Out {
		out = append(out, ev{t.expand(e.ID), t.expand(e.Type), t.expand(e.Data)})
	}
	return out
}

func evsEq(a, b []ev) bool {
	if len(a) != len(b) {
		return false
	}
	for i := range a {
		if a[i] != b[i] {
			return false
		}
	}
	return true
}

func showEvs(a []ev) string {
	var sb strings.Builder
	sb.WriteString("[")
	for i, e := range a {
		if i > 0 {
			sb.WriteString(" ")
		}
		fmt.Fprintf(&sb, "{id=%s type=%s data=%s}", clip(e.ID), clip(e.Type), clip(e.Data))
	}
	sb.WriteString("]")
	return sb.String()
}

func clip(s string) string {
	if len(s) > 40 {
		return fmt.Sprintf("%q..(%d bytes)", s[:20], len(s))
	}
	return fmt.Sprintf("%q", s)
}

// ---- readers ----

// segReader hands out s cut at the given ascending offsets; the end (io.EOF or an error) is reported
// together with the last chunk or by a separate call; zeroAt makes one read return (0, nil) at that cut.
type segReader struct {
	s        string
	cuts     []int
	pos      int
	end      error
	together bool
	zeroAt   int
	zeroDone bool
	maxReq   int
	reads    int
	onEnd    func()
}

func (c *segReader) Read(p []byte) (int, error) {
	c.reads++
	if len(p) > c.maxReq {
		c.maxReq = len(p)
	}
	if c.pos >= len(c.s) {
		if c.onEnd != nil {
			c.onEnd()
			c.onEnd = nil
		}
		return 0, c.end
	}
	if c.zeroAt > 0 && c.pos == c.zeroAt && !c.zeroDone {
		c.zeroDone = true
		return 0, nil
	}
	lim := len(c.s)
	for _, k := range c.cuts {
		if k > c.pos {
			lim = k
			break
		}
	}
	n := copy(p, c.s[c.pos:lim])
	c.pos += n
	if c.pos >= len(c.s) && c.together {
		if c.onEnd != nil {
			c.onEnd()
			c.onEnd = nil
		}
		return n, c.end
	}
	return n, nil
}

type readOutcome struct {
	evs       []ev
	err       error
	nerr      int  // number of times an error was yielded
	evWithErr bool // an event yielded together with an error
	after     bool // anything yielded after an error
	panicked  any
}

func runRead(r io.Reader, cfg *sse.ReadConfig, stopAfter int) (o readOutcome) {
	stopped := false
	var seq func(func(sse.Event, error) bool)
	func() {
		defer func() {
			if p := recover(); p != nil {
				o.panicked = p
			}
		}()
		seq = sse.Read(r, cfg)
		seq(func(e sse.Event, err error) bool {
			if o.nerr > 0 || stopped {
				o.after = true
			}
			if err != nil {
				o.nerr++
				o.err = err
				if e != (sse.Event{}) {
					o.evWithErr = true
				}
				return true
			}
			o.evs = append(o.evs, ev{e.LastEventID, e.Type, e.Data})
			if stopAfter > 0 && len(o.evs) == stopAfter {
				stopped = true
				return false
			}
			return true
		})
	}()
	if o.panicked == nil && !stopped && seq != nil {
		// the sequence Read returns may be ranged over again (the reader is exhausted by then): whatever it yields, it must not panic
		func() {
			defer func() {
				if p := recover(); p != nil {
					o.panicked = fmt.Sprintf("on a second pass over the sequence: %v", p)
				}
			}()
			seq(func(sse.Event, error) bool { return true })
		}()
	}
	return
}

type rtFunc func(*http.Request) (*http.Response, error)

func (f rtFunc) RoundTrip(r *http.Request) (*http.Response, error) { return f(r) }

type connOutcome struct {
	evs      []ev
	err      error
	attempts int
	retries  []int64
	panicked any
}

// runConn runs one connection attempt (MaxRetries -1) over the given body.
func runConn(ctx context.Context, body io.Reader, buf []byte, maxSize int) (o connOutcome) {
	defer func() { o.panicked = recover() }()
	c := &sse.Client{
		HTTPClient: &http.Client{Transport: rtFunc(func(q *http.Request) (*http.Response, error) {
			o.attempts++
			return &http.Response{StatusCode: 200, Body: io.NopCloser(body), Header: http.Header{"Content-Type": {"text/event-stream"}}, Request: q}, nil
		})},
		ResponseValidator: sse.NoopValidator,
		Backoff:           sse.Backoff{MaxRetries: -1},
	}
	q, _ := http.NewRequestWithContext(ctx, http.MethodGet, "http://verif.invalid/", http.NoBody)
	cn := c.NewConnection(q)
	if buf != nil || maxSize > 0 {
		cn.Buffer(buf, maxSize)
	}
	cn.SubscribeToAll(func(e sse.Event) { o.evs = append(o.evs, ev{e.LastEventID, e.Type, e.Data}) })
	o.err = cn.Connect()
	return
}

// ---- segmentations ----

type seg struct {
	cuts     []int
	together bool
	zeroAt   int
	name     string
}

func segmentations(n int, bounds []int, pairsUpTo int, seed int64) []seg {
	out := []seg{{nil, false, 0, "whole"}, {nil, true, 0, "whole+end"}}
	if n <= 1 {
		return out
	}
	if n <= 64 {
		for i := 1; i < n; i++ {
			out = append(out, seg{[]int{i}, i%2 == 0, 0, "cut"})
		}
		all := make([]int, 0, n)
		for i := 1; i < n; i++ {
			all = append(all, i)
		}
		out = append(out, seg{all, false, 0, "bytewise"}, seg{all, true, 0, "bytewise+end"})
		z := 1 + int(seed%int64(n-1))
		out = append(out, seg{[]int{z}, false, z, "zero-read"})
		if n <= pairsUpTo {
			for i := 1; i < n; i++ {
				for j := i + 1; j < n; j++ {
					out = append(out, seg{[]int{i, j}, false, 0, "pair"})
				}
			}
		}
		return out
	}
	// large inputs: cuts around token boundaries and around the scanner's buffer sizes
	marks := map[int]bool{}
	for _, b := range bounds {
		for d := -1; d <= 1; d++ {
			marks[b+d] = true
		}
	}
	for _, b := range []int{4095, 4096, 4097, 8192, 16384, 32768, 65535, 65536, 65537} {
		marks[b] = true
	}
	for m := range marks {
		if m > 0 && m < n {
			out = append(out, seg{[]int{m}, m%2 == 0, 0, "cut"})
		}
	}
	for _, sz := range []int{1000, 4096, 5000} {
		var cs []int
		for i := sz; i < n; i += sz {
			cs = append(cs, i)
		}
		out = append(out, seg{cs, false, 0, fmt.Sprintf("chunks-%d", sz)})
	}
	return out
}

// ---- the C01 oracle ----

type stCase struct {
	entry   string // "read" | "conn"
	end     string // "clean" | "error"
	sg      seg
	readErr error // the error the reader ends with
}

func c01Check(res *Result, t *byteTable, b *stBeh, in string, want stResult, cs stCase, evs []ev, err error, extra map[string]any) {
	fail := func(sig, f string, a ...any) {
		d := map[string]any{"driver": "stream", "behaviour": b, "input": fmt.Sprintf("%q", clipBytes(in)), "entry": cs.entry, "end": cs.end,
			"segmentation": cs.sg.name, "cuts": cs.sg.cuts, "end_with_last_chunk": cs.sg.together,
			"got_events": showEvs(evs), "want_events": showEvs(t.events(want)), "got_err": fmt.Sprint(err), "want_status": want.Status}
		for k, v := range extra {
			d[k] = v
		}
		res.violate(fmt.Sprintf(f, a...), sig, d)
	}
	w := t.events(want)
	if !evsEq(evs, w) {
		cls := "events"
		if len(b.Input) > 0 && b.Input[0] != "BOM" && containsTok(b.Input, "BOM") && strings.HasPrefix(strings.TrimLeft(in, "\r\n"), "\xEF\xBB\xBF") {
			cls = "events:bom-after-blank-lines"
		} else if hasSignedRetry(b.Input) && cs.entry == "conn" {
			cls = "events:signed-retry"
		}
		fail("stream:"+cs.entry+":"+cls, "%s(%s, %s end, %s): events %s, spec %s", cs.entry, clipBytes(in), cs.end, cs.sg.name, showEvs(evs), showEvs(w))
		return
	}
	switch cs.end {
	case "clean":
		switch cs.entry {
		case "read":
			if want.Status == "eof" && err != nil {
				fail("stream:read:end", "Read(%s) clean end after a terminated line: error %v, want none", clipBytes(in), err)
			}
			if want.Status == "unexpected_eof" && !errors.Is(err, sse.ErrUnexpectedEOF) {
				fail("stream:read:end", "Read(%s) clean end in mid-line: error %v, want ErrUnexpectedEOF", clipBytes(in), err)
			}
		case "conn":
			// Connect returning nil is C11's finding; here only a wrong non-nil end condition counts.
			if err == nil {
				if strictErrors {
					fail("stream:conn:nil", "Connect(%s) returned nil after a clean end of the stream", clipBytes(in))
				}
				res.addNote("conn_nil_left_to_C11", 1)
				return
			}
			var ce *sse.ConnectionError
			if !errors.As(err, &ce) {
				fail("stream:conn:end", "Connect(%s) clean end: error %v is not a *ConnectionError", clipBytes(in), err)
			} else if want.Status == "eof" && !errors.Is(err, io.EOF) {
				fail("stream:conn:end", "Connect(%s) clean end after a terminated line: %v, want io.EOF", clipBytes(in), err)
			} else if want.Status == "unexpected_eof" && !errors.Is(err, sse.ErrUnexpectedEOF) {
				fail("stream:conn:end", "Connect(%s) clean end in mid-line: %v, want ErrUnexpectedEOF", clipBytes(in), err)
			}
		}
	case "error":
		// which error it is belongs to C11; here: an error must end the stream
		if err == nil && cs.entry == "read" {
			fail("stream:read:end", "Read(%s) ended by a read error yielded no error", clipBytes(in))
		}
		if err == nil && cs.entry == "conn" {
			if strictErrors {
				fail("stream:conn:nil", "Connect(%s) returned nil after a read error", clipBytes(in))
			}
			res.addNote("conn_nil_left_to_C11", 1)
		}
		want2 := cs.readErr
		if strictErrors && err != nil && !errors.Is(err, want2) {
			fail("stream:"+cs.entry+":error-identity", "%s(%s) ended by the read error %q reported %q", cs.entry, clipBytes(in), want2, err)
		}
		if strictErrors && err != nil && errors.Is(err, sse.ErrUnexpectedEOF) {
			fail("stream:"+cs.entry+":error-identity", "%s(%s) ended by a read error reported ErrUnexpectedEOF", cs.entry, clipBytes(in))
		}
	}
}

func containsTok(in []string, t string) bool {
	for _, x := range in {
		if x == t {
			return true
		}
	}
	return false
}

func hasSignedRetry(in []string) bool {
	for i, x := range in {
		if x == "retry" {
			for _, y := range in[i:] {
				if y == "PLUS" || y == "MINUS" {
					return true
				}
			}
		}
	}
	return false
}

func clipBytes(s string) string {
	if len(s) > 60 {
		return fmt.Sprintf("%q...(%d bytes)", s[:30], len(s))
	}
	return fmt.Sprintf("%q", s)
}

var strictErrors bool

func cmdStream(args []string) {
	fs := flag.NewFlagSet("stream", flag.ExitOnError)
	in := fs.String("in", "", "ndjson behaviours exported by Stream.tla")
	out := fs.String("out", "", "result file")
	table := fs.String("table", "", "token table exported by Bytes.tla")
	pairs := fs.Int("pairs", 12, "try every pair of cut points for inputs up to this many bytes")
	errIdent := fs.Bool("errident", false, "C11: also demand that the error reported is the reader's own / that Connect never returns nil")
	fs.Parse(args)
	strictErrors = *errIdent
	t := loadTable(*table)
	res := newResult()
	seed := envSeed()
	n := eachLine(*in, runtime.NumCPU(), func(line []byte, idx int) {
		var b stBeh
		if err := json.Unmarshal(line, &b); err != nil {
			fatal("bad behaviour line %d: %v", idx, err)
		}
		input := t.expand(b.Input)
		segs := segmentations(len(input), t.boundaries(b.Input), *pairs, seed+int64(idx))
		nontriv := len(b.Clean.Conn.Out) > 0 || len(b.Error.Conn.Out) > 0 || b.Clean.Read.Status != "eof"
		if nontriv {
			res.nontrivial(strings.Join(b.Input, " "))
		}
		for _, end := range []string{"clean", "error", "error-wrapping-eof"} {
			pair := b.Clean
			endErr := io.EOF
			if end == "error" {
				pair, endErr = b.Error, errBoom
			}
			if end == "error-wrapping-eof" {
				// a read error that wraps io.EOF is still a read error: nothing pending is dispatched
				pair, endErr, end = b.Error, errWrapEOF, "error"
			}
			for _, sg := range segs {
				// sse.Read
				o := runRead(&segReader{s: input, cuts: sg.cuts, end: endErr, together: sg.together, zeroAt: sg.zeroAt}, nil, 0)
				res.eval(1)
				cs := stCase{"read", end, sg, endErr}
				if o.panicked != nil {
					res.violate(fmt.Sprintf("Read(%s) panicked: %v", clipBytes(input), o.panicked), "stream:read:panic", map[string]any{"driver": "stream", "behaviour": b})
				} else {
					if o.after || o.nerr > 1 || o.evWithErr {
						res.violate(fmt.Sprintf("Read(%s): something was yielded after / together with an error (errors=%d)", clipBytes(input), o.nerr),
							"stream:read:after-error", map[string]any{"driver": "stream", "behaviour": b, "cuts": sg.cuts})
					}
					c01Check(res, t, &b, input, pair.Read, cs, o.evs, o.err, nil)
				}
				// Connection
				co := runConn(context.Background(), &segReader{s: input, cuts: sg.cuts, end: endErr, together: sg.together, zeroAt: sg.zeroAt}, nil, 0)
				res.eval(1)
				cs = stCase{"conn", end, sg, endErr}
				if co.panicked != nil {
					res.violate(fmt.Sprintf("Connect(%s) panicked: %v", clipBytes(input), co.panicked), "stream:conn:panic", map[string]any{"driver": "stream", "behaviour": b})
				} else {
					c01Check(res, t, &b, input, pair.Conn, cs, co.evs, co.err, nil)
				}
			}
			// early stop at every position: the result is the k-prefix and the iterator is not called again
			w := t.events(pair.Read)
			for k := 1; k <= len(w); k++ {
				o := runRead(&segReader{s: input, end: endErr}, nil, k)
				res.eval(1)
				if o.panicked != nil || o.after || !evsEq(o.evs, w[:k]) || o.nerr > 0 {
					res.violate(fmt.Sprintf("Read(%s) stopped after event %d: got %s (yield after stop: %v, errors %d), want prefix %s", clipBytes(input), k, showEvs(o.evs), o.after, o.nerr, showEvs(w[:k])),
						"stream:read:early-stop", map[string]any{"driver": "stream", "behaviour": b, "stop_after": k})
				}
			}
		}
		if idx%1499 == 0 {
			res.sample(map[string]any{"input_tokens": b.Input, "input": clipBytes(input), "segmentations": len(segs),
				"clean_read": b.Clean.Read.Status, "clean_conn_events": showEvs(t.events(b.Clean.Conn))})
		}
	})
	res.Behaviours = n
	res.write(*out)
}

func init() {
	commands["stream"] = cmdStream
}
