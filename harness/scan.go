package main

import (
	"bufio"
	"context"
	"encoding/json"
	"errors"
	"flag"
	"fmt"
	"io"
	"math/rand"
	"net/http"
	"runtime"
	"strings"

	sse "github.com/tmaxmax/go-sse"
)

// ---- behaviours exported by Scanner.tla ----

type scUnit struct {
	B int `json:"b"`
	E int `json:"e"`
}

type scBeh struct {
	Cfg struct {
		Entry   string `json:"entry"`
		InitCap int    `json:"initcap"`
		Max     int    `json:"max"`
	} `json:"cfg"`
	Limit  int `json:"limit"`
	Stream struct {
		Units []scUnit `json:"units"`
		Tail  struct {
			Kind string `json:"kind"`
			N    int    `json:"n"`
		} `json:"tail"`
	} `json:"stream"`
	Policy      int    `json:"policy"`
	Status      string `json:"status"`
	Delivered   int    `json:"delivered"`
	MaxReq      int    `json:"maxreq"`
	MaxBuffered int    `json:"maxbuffered"`
	FinalBuf    int    `json:"finalbuf"`
}

func (b *scBeh) bytes() (s string, ends []int) {
	var sb strings.Builder
	for i, u := range b.Stream.Units {
		sb.WriteString(strings.Repeat("\n", u.B))
		if i == 0 && u.E >= 16 {
			// the first event carries an ID that every later event must still report intact
			sb.WriteString("id:KEY0\ndata:")
			sb.WriteString(strings.Repeat("a", u.E-15))
		} else {
			sb.WriteString("data:")
			sb.WriteString(strings.Repeat("a", u.E-7))
		}
		sb.WriteString("\n\n")
		ends = append(ends, sb.Len())
	}
	t := b.Stream.Tail
	switch t.Kind {
	case "blank":
		sb.WriteString(strings.Repeat("\n", t.N))
	case "line":
		sb.WriteString("data:" + strings.Repeat("a", t.N-5))
	case "event":
		sb.WriteString("data:" + strings.Repeat("a", t.N-6) + "\n")
	}
	return sb.String(), ends
}

// countingReader hands out the stream in chunks and checks, at every Read call, how far the parser has
// read beyond the end of the last event it delivered.
type countingReader struct {
	s         string
	pos       int
	chunk     func(req int) int
	ends      []int
	delivered *int
	limit     int
	worst     int
	maxReq    int
	eofWith   bool
}

func (c *countingReader) Read(p []byte) (int, error) {
	if len(p) > c.maxReq {
		c.maxReq = len(p)
	}
	base := 0
	if d := *c.delivered; d > 0 && d <= len(c.ends) {
		base = c.ends[d-1]
	} else if d > len(c.ends) {
		base = len(c.s)
	}
	if over := c.pos - base; over > c.worst {
		c.worst = over
	}
	if c.pos >= len(c.s) {
		return 0, io.EOF
	}
	n := c.chunk(len(p))
	if n > len(p) {
		n = len(p)
	}
	if n > len(c.s)-c.pos {
		n = len(c.s) - c.pos
	}
	if n < 1 {
		n = 1
	}
	copy(p, c.s[c.pos:c.pos+n])
	c.pos += n
	if c.pos >= len(c.s) && c.eofWith {
		return n, io.EOF
	}
	return n, nil
}

func cmdScan(args []string) {
	fs := flag.NewFlagSet("scan", flag.ExitOnError)
	in := fs.String("in", "", "ndjson behaviours exported by Scanner.tla")
	out := fs.String("out", "", "result file")
	fs.Parse(args)
	res := newResult()
	seed := envSeed()
	n := eachLine(*in, runtime.NumCPU(), func(line []byte, idx int) {
		var b scBeh
		if err := json.Unmarshal(line, &b); err != nil {
			fatal("bad behaviour line %d: %v", idx, err)
		}
		stream, ends := b.bytes()
		rng := rand.New(rand.NewSource(seed*1000003 + int64(idx)))
		exact := true // a unit of exactly the limit may go either way
		for _, u := range b.Stream.Units {
			if u.B+u.E == b.Limit {
				exact = false
			}
		}
		if b.Stream.Tail.N >= b.Limit {
			exact = exact && b.Status == "toolong" && b.Stream.Tail.N > b.Limit
		}
		chunkings := map[string]func(int) int{
			"policy": func(req int) int {
				if b.Policy == 0 {
					return req
				}
				return b.Policy
			},
			"bytewise-ish": func(req int) int { return 1 + rng.Intn(3) },
			"random":       func(req int) int { return 1 + rng.Intn(req) },
			"4096":         func(req int) int { return 4096 },
		}
		if len(stream) > 40000 {
			delete(chunkings, "bytewise-ish")
		}
		for _, cname := range sortedKeys(chunkings) {
			for _, eofWith := range []bool{false, true} {
				delivered := 0
				rd := &countingReader{s: stream, chunk: chunkings[cname], ends: ends, delivered: &delivered, limit: b.Limit, eofWith: eofWith}
				var evs []ev
				var err error
				var pn any
				switch b.Cfg.Entry {
				case "read":
					var cfg *sse.ReadConfig
					if b.Cfg.Max > 0 {
						cfg = &sse.ReadConfig{MaxEventSize: b.Cfg.Max}
					}
					func() {
						defer func() { pn = recover() }()
						sse.Read(rd, cfg)(func(e sse.Event, er error) bool {
							if er != nil {
								err = er
								return true
							}
							evs = append(evs, ev{e.LastEventID, e.Type, e.Data})
							delivered = len(evs)
							return true
						})
					}()
				case "conn":
					var buf []byte
					if b.Cfg.InitCap > 0 {
						buf = make([]byte, 0, b.Cfg.InitCap)
					}
					co := runConnCount(rd, buf, b.Cfg.Max, &delivered)
					evs, err, pn = co.evs, co.err, co.panicked
				}
				res.eval(1)
				d := map[string]any{"driver": "scan", "behaviour": b, "chunking": cname, "eof_with_data": eofWith, "got_events": len(evs), "got_err": fmt.Sprint(err),
					"read_ahead": rd.worst, "stream_bytes": len(stream)}
				what := fmt.Sprintf("%s limit=%d (cap %d, max %d) units=%v tail=%s/%d chunking=%s", b.Cfg.Entry, b.Limit, b.Cfg.InitCap, b.Cfg.Max, b.Stream.Units, b.Stream.Tail.Kind, b.Stream.Tail.N, cname)
				if pn != nil {
					res.violate(fmt.Sprintf("panic: %v  [%s]", pn, what), "scan:panic", d)
					continue
				}
				// 1. memory: never more than the limit beyond the last completed event
				if rd.worst > b.Limit {
					res.violate(fmt.Sprintf("read %d bytes beyond the last delivered event, limit %d  [%s]", rd.worst, b.Limit, what), "scan:readahead", d)
				}
				// 2. every delivered event is intact and is the next unit's event: never a truncated one
				okEvents := true
				wantID := ""
				if len(b.Stream.Units) > 0 && b.Stream.Units[0].E >= 16 {
					wantID = "KEY0"
				}
				for i, e := range evs {
					var want string
					if i < len(b.Stream.Units) {
						want = strings.Repeat("a", b.Stream.Units[i].E-7)
						if i == 0 && wantID != "" {
							want = strings.Repeat("a", b.Stream.Units[i].E-15)
						}
					} else if i == len(b.Stream.Units) && b.Stream.Tail.Kind == "event" {
						want = strings.Repeat("a", b.Stream.Tail.N-6)
					} else {
						okEvents = false
						break
					}
					if e.Data != want || e.Type != "" || e.ID != wantID {
						okEvents = false
						break
					}
				}
				if !okEvents {
					res.violate(fmt.Sprintf("delivered a truncated / foreign event (%d events)  [%s]", len(evs), what), "scan:truncated", d)
					continue
				}
				if !exact {
					continue
				}
				// 3. the spec's verdict: complete delivery below the limit, ErrTooLong at the first oversized unit
				switch b.Status {
				case "eof":
					wantN := b.Delivered
					var wantErr error
					switch b.Stream.Tail.Kind {
					case "event":
						wantN++
					case "line":
						wantErr = sse.ErrUnexpectedEOF
					}
					if b.Cfg.Entry == "conn" && wantErr == nil {
						wantErr = io.EOF
					}
					if len(evs) != wantN {
						res.violate(fmt.Sprintf("%d events delivered, spec: all %d (every unit is below the limit)  [%s]", len(evs), wantN, what), "scan:incomplete", d)
					}
					if (wantErr == nil) != (err == nil) || (wantErr != nil && !errors.Is(err, wantErr)) {
						res.violate(fmt.Sprintf("ended with %v, spec: %v  [%s]", err, wantErr, what), "scan:end", d)
					}
				case "toolong":
					if !errors.Is(err, bufio.ErrTooLong) {
						res.violate(fmt.Sprintf("ended with %v, spec: ErrTooLong at unit %d  [%s]", err, b.Delivered+1, what), "scan:end", d)
					}
					if len(evs) != b.Delivered {
						res.violate(fmt.Sprintf("%d events delivered before the oversized unit, spec: %d  [%s]", len(evs), b.Delivered, what), "scan:incomplete", d)
					}
				}
				if cname == "policy" && !eofWith && rd.maxReq != b.MaxReq {
					res.drift(map[string]any{"what": what, "max_read_request": rd.maxReq, "spec": b.MaxReq})
					res.addNote("maxreq_drift", 1)
				} else if cname == "policy" && !eofWith {
					res.addNote("maxreq_agree", 1)
				}
			}
		}
		if b.Status == "toolong" || len(b.Stream.Units) > 1 {
			res.nontrivial(string(line))
		}
		if idx%701 == 0 {
			res.sample(map[string]any{"cfg": b.Cfg, "limit": b.Limit, "units": b.Stream.Units, "tail": b.Stream.Tail, "policy": b.Policy, "spec_status": b.Status, "spec_delivered": b.Delivered, "spec_max_read_ahead": b.MaxBuffered})
		}
	})
	res.Behaviours = n
	res.write(*out)
}

func runConnCount(body io.Reader, buf []byte, maxSize int, delivered *int) (o connOutcome) {
	defer func() { o.panicked = recover() }()
	c := &sse.Client{
		HTTPClient: &http.Client{Transport: rtFunc(func(q *http.Request) (*http.Response, error) {
			return &http.Response{StatusCode: 200, Body: io.NopCloser(body), Header: http.Header{}, Request: q}, nil
		})},
		ResponseValidator: sse.NoopValidator,
		Backoff:           sse.Backoff{MaxRetries: -1},
	}
	q, _ := http.NewRequestWithContext(context.Background(), http.MethodGet, "http://verif.invalid/", http.NoBody)
	cn := c.NewConnection(q)
	if buf != nil || maxSize > 0 {
		cn.Buffer(buf, maxSize)
	}
	cn.SubscribeToAll(func(e sse.Event) {
		o.evs = append(o.evs, ev{e.LastEventID, e.Type, e.Data})
		*delivered = len(o.evs)
	})
	o.err = cn.Connect()
	var ce *sse.ConnectionError
	if errors.As(o.err, &ce) {
		o.err = ce.Err
	}
	return
}

func init() {
	commands["scan"] = cmdScan
}
