package main

import (
	"bufio"
	"context"
	"encoding/json"
	"errors"
	"flag"
	"fmt"
	"io"
	"math"
	"math/rand"
	"net/http"
	"runtime"
	"strings"
	"time"

	sse "github.com/tmaxmax/go-sse"
)

// ---- behaviours exported by Scanner.tla ----

type scUnit struct {
	B int `json:"b"`
	E int `json:"e"`
	C int `json:"c"` // 1: the "event" is a comment-only block (a heartbeat): a token for the scanner, no event for the callbacks
}

type scBeh struct {
	Cfg struct {
		Entry   string `json:"entry"`
		InitCap int    `json:"initcap"`
		Max     int    `json:"max"`
	} `json:"cfg"`
	Limit  int `json:"limit"`
	Stream struct {
		Units []scUnit `json:"units"`
		Tail  struct {
			Kind string `json:"kind"`
			N    int    `json:"n"`
		} `json:"tail"`
	} `json:"stream"`
	Policy      int    `json:"policy"`
	Status      string `json:"status"`
	Delivered   int    `json:"delivered"`
	MaxReq      int    `json:"maxreq"`
	MaxBuffered int    `json:"maxbuffered"`
	FinalBuf    int    `json:"finalbuf"`
	Style       string `json:"style,omitempty"` // line terminator used to concretise the stream (chosen by the driver, kept in replay files)
}

// bytes concretises the unit-abstracted stream with one of the three line terminators (same byte counts: the
// payload shrinks to make room for two-byte terminators); "lf" is used where a unit is too small for the style.
func (b *scBeh) bytes(style string) (s string, ends []int) {
	nl := map[string]string{"lf": "\n", "crlf": "\r\n", "cr": "\r"}[style]
	for _, u := range b.Stream.Units {
		if u.E < 2*len(nl)+6 {
			nl = "\n"
		}
	}
	if t := b.Stream.Tail; (t.Kind == "line" || t.Kind == "event") && t.N < len(nl)+6 {
		nl = "\n"
	}
	blank := func(n int) string {
		if len(nl) == 1 {
			return strings.Repeat(nl, n)
		}
		return strings.Repeat(nl, n/2) + strings.Repeat("\n", n%2)
	}
	var sb strings.Builder
	for i, u := range b.Stream.Units {
		sb.WriteString(blank(u.B))
		if u.C == 1 {
			sb.WriteString(":" + strings.Repeat("k", u.E-1-2*len(nl)) + nl + nl)
			continue
		}
		if i == 0 && b.withKey() {
			// the first event carries an ID that every later event must still report intact
			sb.WriteString("id:KEY0" + nl + "data:")
			sb.WriteString(strings.Repeat("a", u.E-12-3*len(nl)))
		} else {
			sb.WriteString("data:")
			sb.WriteString(strings.Repeat("a", u.E-5-2*len(nl)))
		}
		sb.WriteString(nl + nl)
		ends = append(ends, sb.Len())
	}
	t := b.Stream.Tail
	switch t.Kind {
	case "blank":
		sb.WriteString(blank(t.N))
	case "line":
		sb.WriteString("data:" + strings.Repeat("a", t.N-5))
	case "event":
		sb.WriteString("data:" + strings.Repeat("a", t.N-5-len(nl)) + nl)
	}
	return sb.String(), ends
}

func (b *scBeh) withKey() bool {
	return len(b.Stream.Units) > 0 && b.Stream.Units[0].E >= 24 && b.Stream.Units[0].C == 0
}

// eventUnits lists the units that carry an event (heartbeats do not), and how many of the first n units do
func (b *scBeh) eventUnits() (idx []int) {
	for i, u := range b.Stream.Units {
		if u.C == 0 {
			idx = append(idx, i)
		}
	}
	return
}

func (b *scBeh) eventsAmong(n int) int {
	k := 0
	for i, u := range b.Stream.Units {
		if i < n && u.C == 0 {
			k++
		}
	}
	return k
}

func (b *scBeh) unitsStr() string {
	if len(b.Stream.Units) <= 12 {
		return fmt.Sprint(b.Stream.Units)
	}
	return fmt.Sprintf("%v ... (%d units, %d of them heartbeats)", b.Stream.Units[:4], len(b.Stream.Units), len(b.Stream.Units)-len(b.eventUnits()))
}

func (b *scBeh) hasHeartbeats() bool { return len(b.eventUnits()) != len(b.Stream.Units) }

// payload lengths of the delivered events for a style (see bytes)
func (b *scBeh) wantData(style string, i int) (string, bool) {
	nl := map[string]int{"lf": 1, "crlf": 2, "cr": 1}[style]
	for _, u := range b.Stream.Units {
		if u.E < 2*nl+6 {
			nl = 1
		}
	}
	if t := b.Stream.Tail; (t.Kind == "line" || t.Kind == "event") && t.N < nl+6 {
		nl = 1
	}
	eu := b.eventUnits()
	switch {
	case i < len(eu):
		if eu[i] == 0 && b.withKey() {
			return strings.Repeat("a", b.Stream.Units[eu[i]].E-12-3*nl), true
		}
		return strings.Repeat("a", b.Stream.Units[eu[i]].E-5-2*nl), true
	case i == len(eu) && b.Stream.Tail.Kind == "event":
		return strings.Repeat("a", b.Stream.Tail.N-5-nl), true
	}
	return "", false
}

// scMax maps the spec's "no limit to speak of" (2*10^9: TLC's integers are 32 bit) to the largest int, the customary way
// of switching the limit off
func scMax(m int) int {
	if m >= 2000000000 {
		return math.MaxInt
	}
	return m
}

// countingReader hands out the stream in chunks and checks, at every Read call, how far the parser has
// read beyond the end of the last event it delivered.
type countingReader struct {
	s         string
	pos       int
	chunk     func(req int) int
	ends      []int
	delivered *int
	limit     int
	worst     int
	maxReq    int
	eofWith   bool
	over      bool
}

func (c *countingReader) Read(p []byte) (int, error) {
	if c.over {
		return 0, io.EOF
	}
	if len(p) > c.maxReq {
		c.maxReq = len(p)
	}
	base := 0
	if d := *c.delivered; d > 0 && d <= len(c.ends) {
		base = c.ends[d-1]
	} else if d > len(c.ends) {
		base = len(c.s)
	}
	if over := c.pos - base; over > c.worst {
		c.worst = over
	}
	if c.pos >= len(c.s) {
		return 0, io.EOF
	}
	n := c.chunk(len(p))
	if n > len(p) {
		n = len(p)
	}
	if n > len(c.s)-c.pos {
		n = len(c.s) - c.pos
	}
	if n < 1 {
		n = 1
	}
	copy(p, c.s[c.pos:c.pos+n])
	c.pos += n
	if c.pos >= len(c.s) && c.eofWith {
		return n, io.EOF
	}
	return n, nil
}

func cmdScan(args []string) {
	fs := flag.NewFlagSet("scan", flag.ExitOnError)
	in := fs.String("in", "", "ndjson behaviours exported by Scanner.tla")
	out := fs.String("out", "", "result file")
	fs.Parse(args)
	res := newResult()
	seed := envSeed()
	n := eachLine(*in, runtime.NumCPU(), func(line []byte, idx int) {
		var b scBeh
		if err := json.Unmarshal(line, &b); err != nil {
			fatal("bad behaviour line %d: %v", idx, err)
		}
		rng := rand.New(rand.NewSource(seed*1000003 + int64(idx)))
		style := b.Style
		if style == "" {
			style = []string{"lf", "crlf", "cr", "lf"}[idx%4]
			if b.Limit <= 300 {
				style = []string{"lf", "crlf", "cr"}[idx%3]
			}
			b.Style = style
		}
		stream, ends := b.bytes(style)
		exact := true // a unit of exactly the limit may go either way
		slack := 0
		if style == "crlf" {
			slack = 1 // the LF of the closing CR LF need not be in the buffer for the event to be complete
		}
		for _, u := range b.Stream.Units {
			if u.B+u.E >= b.Limit && u.B+u.E <= b.Limit+slack {
				exact = false
			}
		}
		if b.Stream.Tail.N >= b.Limit {
			exact = exact && b.Status == "toolong" && b.Stream.Tail.N > b.Limit+slack
		}
		chunkings := map[string]func(int) int{
			"policy": func(req int) int {
				if b.Policy == 0 {
					return req
				}
				return b.Policy
			},
			"bytewise-ish": func(req int) int { return 1 + rng.Intn(3) },
			"random":       func(req int) int { return 1 + rng.Intn(req) },
			"4096":         func(req int) int { return 4096 },
		}
		if len(stream) > 40000 {
			delete(chunkings, "bytewise-ish")
		}
		for _, cname := range sortedKeys(chunkings) {
			for _, eofWith := range []bool{false, true} {
				delivered := 0
				rd := &countingReader{s: stream, chunk: chunkings[cname], ends: ends, delivered: &delivered, limit: b.Limit, eofWith: eofWith}
				var evs []ev
				var err error
				var pn any
				switch b.Cfg.Entry {
				case "read":
					var cfg *sse.ReadConfig
					switch (b.Limit + len(cname)) % 3 { // "no configured size": a nil config, a zero one, a negative size
					case 1:
						cfg = &sse.ReadConfig{}
					case 2:
						cfg = &sse.ReadConfig{MaxEventSize: -1}
					}
					if b.Cfg.Max > 0 {
						cfg = &sse.ReadConfig{MaxEventSize: scMax(b.Cfg.Max)}
					}
					func() {
						defer func() { pn = recover() }()
						seq := sse.Read(rd, cfg)
						seq(func(e sse.Event, er error) bool {
							if er != nil {
								err = er
								return true
							}
							evs = append(evs, ev{e.LastEventID, e.Type, e.Data})
							delivered = len(evs)
							return true
						})
						// "Read never panics": also not when the sequence is ranged over once more
						rd.over = true // (the stream was read: the second pass meets an exhausted reader)
						n2 := 0
						seq(func(sse.Event, error) bool { n2++; return n2 < 1000 })
					}()
				case "conn":
					var buf []byte
					if b.Cfg.InitCap > 0 {
						buf = make([]byte, 0, b.Cfg.InitCap)
					}
					co := runConnCount(rd, buf, scMax(b.Cfg.Max), &delivered, (b.Limit+len(b.Stream.Units)+b.Stream.Tail.N+len(cname))%2 == 1)
					evs, err, pn = co.evs, co.err, co.panicked
				}
				res.eval(1)
				d := map[string]any{"driver": "scan", "behaviour": b, "chunking": cname, "eof_with_data": eofWith, "got_events": len(evs), "got_err": fmt.Sprint(err),
					"read_ahead": rd.worst, "stream_bytes": len(stream)}
				what := fmt.Sprintf("%s limit=%d (cap %d, max %d) units=%v tail=%s/%d chunking=%s line ends=%s", b.Cfg.Entry, b.Limit, b.Cfg.InitCap, b.Cfg.Max, b.unitsStr(), b.Stream.Tail.Kind, b.Stream.Tail.N, cname, style)
				if pn != nil {
					res.violate(fmt.Sprintf("panic: %v  [%s]", pn, what), "scan:panic", d)
					continue
				}
				// 1. memory: never more than the limit beyond the last completed event
				if rd.worst > b.Limit && !b.hasHeartbeats() { // (consumed heartbeats are not observable from outside)
					res.violate(fmt.Sprintf("read %d bytes beyond the last delivered event, limit %d  [%s]", rd.worst, b.Limit, what), "scan:readahead", d)
				}
				// 2. every delivered event is intact and is the next unit's event: never a truncated one
				okEvents := true
				wantID := ""
				if b.withKey() {
					wantID = "KEY0"
				}
				for i, e := range evs {
					want, ok := b.wantData(style, i)
					if !ok || e.Data != want || e.Type != "" || e.ID != wantID {
						okEvents = false
						break
					}
				}
				if !okEvents {
					res.violate(fmt.Sprintf("delivered a truncated / foreign event (%d events)  [%s]", len(evs), what), "scan:truncated", d)
					continue
				}
				if !exact {
					continue
				}
				// 3. the spec's verdict: complete delivery below the limit, ErrTooLong at the first oversized unit
				switch b.Status {
				case "eof":
					wantN := b.eventsAmong(b.Delivered)
					var wantErr error
					switch b.Stream.Tail.Kind {
					case "event":
						wantN++
					case "line":
						wantErr = sse.ErrUnexpectedEOF
					}
					if b.Cfg.Entry == "conn" && wantErr == nil {
						wantErr = io.EOF
					}
					if len(evs) != wantN {
						res.violate(fmt.Sprintf("%d events delivered, spec: all %d (every unit is below the limit)  [%s]", len(evs), wantN, what), "scan:incomplete", d)
					}
					if (wantErr == nil) != (err == nil) || (wantErr != nil && !errors.Is(err, wantErr)) {
						res.violate(fmt.Sprintf("ended with %v, spec: %v  [%s]", err, wantErr, what), "scan:end", d)
					}
				case "toolong":
					if !errors.Is(err, bufio.ErrTooLong) {
						res.violate(fmt.Sprintf("ended with %v, spec: ErrTooLong at unit %d  [%s]", err, b.Delivered+1, what), "scan:end", d)
					}
					if len(evs) != b.eventsAmong(b.Delivered) {
						res.violate(fmt.Sprintf("%d events delivered before the oversized unit, spec: %d  [%s]", len(evs), b.eventsAmong(b.Delivered), what), "scan:incomplete", d)
					}
				}
				if cname == "policy" && !eofWith && rd.maxReq != b.MaxReq {
					res.drift(map[string]any{"what": what, "max_read_request": rd.maxReq, "spec": b.MaxReq})
					res.addNote("maxreq_drift", 1)
				} else if cname == "policy" && !eofWith {
					res.addNote("maxreq_agree", 1)
				}
			}
		}
		if b.Status == "toolong" || len(b.Stream.Units) > 1 {
			res.nontrivial(string(line))
		}
		if idx%701 == 0 {
			res.sample(map[string]any{"cfg": b.Cfg, "limit": b.Limit, "units": b.Stream.Units, "tail": b.Stream.Tail, "policy": b.Policy, "spec_status": b.Status, "spec_delivered": b.Delivered, "spec_max_read_ahead": b.MaxBuffered})
		}
	})
	res.Behaviours = n
	res.write(*out)
}

// runConnCount reads the stream through a Connection.  With warm, the stream comes on the Connection's second connection (after a
// first one that delivered one small event and ended): the Buffer settings hold for every connection, not only the first.
func runConnCount(body io.Reader, buf []byte, maxSize int, delivered *int, warm bool) (o connOutcome) {
	defer func() {
		if p := recover(); p != nil {
			o.panicked = p
		}
	}()
	ctx, cancel := context.WithCancel(context.Background())
	defer cancel()
	calls := 0
	c := &sse.Client{
		HTTPClient: &http.Client{Transport: rtFunc(func(q *http.Request) (*http.Response, error) {
			calls++
			if (warm && calls > 2) || (!warm && calls > 1) {
				return nil, errDial // the stream is served once (a timer firing together with the cancellation may start one more attempt)
			}
			if warm && calls == 1 {
				return &http.Response{StatusCode: 200, Body: io.NopCloser(strings.NewReader("data:warmup\n\n")), Header: http.Header{}, Request: q}, nil
			}
			return &http.Response{StatusCode: 200, Body: io.NopCloser(body), Header: http.Header{}, Request: q}, nil
		})},
		ResponseValidator: sse.NoopValidator,
		Backoff:           sse.Backoff{MaxRetries: -1},
	}
	var lastErr error
	if warm {
		c.Backoff = sse.Backoff{InitialInterval: time.Microsecond, Jitter: -1}
		n := 0
		c.OnRetry = func(err error, _ time.Duration) {
			if n++; n == 2 {
				lastErr = err // how the second connection ended
				cancel()
			}
		}
	}
	q, _ := http.NewRequestWithContext(ctx, http.MethodGet, "http://verif.invalid/", http.NoBody)
	cn := c.NewConnection(q)
	// the last Buffer call is the one in force - also when it goes back to the defaults
	cn.Buffer(make([]byte, 0, 17), 33)
	cn.Buffer(buf, maxSize)
	cn.SubscribeToAll(func(e sse.Event) {
		if warm && e.Data == "warmup" && len(o.evs) == 0 && calls == 1 {
			return
		}
		o.evs = append(o.evs, ev{e.LastEventID, e.Type, e.Data})
		*delivered = len(o.evs)
	})
	o.err = cn.Connect()
	if warm && lastErr != nil {
		o.err = lastErr
	}
	var ce *sse.ConnectionError
	if errors.As(o.err, &ce) {
		o.err = ce.Err
	}
	return
}

func init() {
	commands["scan"] = cmdScan
}
