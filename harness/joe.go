package main

import (
	"context"
	"encoding/json"
	"errors"
	"flag"
	"fmt"
	"math/rand"
	"os"
	"runtime"
	"strconv"
	"strings"
	"sync"
	"time"

	sse "github.com/tmaxmax/go-sse"
)

// Direction B for Joe: seeded scenarios are run against a real Joe with recording MessageWriters and a
// recording (real or scripted) Replayer; every hook point and every driver-side call is logged as one
// ndjson event, in an order that agrees with happens-before (release before, acquire after; DESIGN 2.4).

type jev map[string]any

type jtracer struct {
	mu     sync.Mutex
	cond   *sync.Cond
	evs    []jev
	rng    *rand.Rand
	chans  map[any]string
	counts map[string]int
	subs   map[any]string
	msgs   map[any]string
	downs  map[any]string
	yield  int               // 0 none, 1 light, 2 heavy
	steer  *steerer          // when set, every event is a gate of the behaviour being replayed (joesteer.go)
	pids   map[string]string // IDs given by an ID-assigning replayer, by message name
}

func newTracer(seed int64, yield int) *jtracer {
	t := &jtracer{rng: rand.New(rand.NewSource(seed)), chans: map[any]string{}, counts: map[string]int{}, subs: map[any]string{},
		msgs: map[any]string{}, downs: map[any]string{}, yield: yield}
	t.cond = sync.NewCond(&t.mu)
	return t
}

func (t *jtracer) log(e jev) {
	if t.steer != nil {
		if a := eventActor(e); a != "" {
			t.steer.gate(a, eventStep[e["e"].(string)])
		}
	}
	t.logUngated(e)
}

func (t *jtracer) logUngated(e jev) {
	t.mu.Lock()
	t.evs = append(t.evs, e)
	if s, ok := e["s"].(string); ok {
		t.counts[e["e"].(string)+":"+s]++
	}
	t.counts[e["e"].(string)]++
	p := t.rng.Intn(10)
	t.cond.Broadcast()
	t.mu.Unlock()
	switch {
	case t.yield == 0:
	case p < 3:
		runtime.Gosched()
	case p == 3 && t.yield > 1:
		time.Sleep(time.Duration(20+p*10) * time.Microsecond)
	}
}

func (t *jtracer) waitFor(keys ...string) {
	t.mu.Lock()
	for {
		for _, k := range keys {
			if t.counts[k] > 0 {
				t.mu.Unlock()
				return
			}
		}
		t.cond.Wait()
	}
}

func jerrClass(b any) string {
	if b == nil {
		return "nil"
	}
	if e, ok := b.(error); ok && e != nil {
		switch {
		case errors.Is(e, sse.ErrProviderClosed):
			return "closed"
		case errors.Is(e, sse.ErrNoTopic):
			return "notopic"
		case errors.Is(e, errPut):
			return "puterr"
		case errors.Is(e, errReplay):
			return "replayerr"
		case errors.Is(e, context.Canceled), errors.Is(e, context.DeadlineExceeded):
			return "ctx"
		}
		return "err"
	}
	return "nil"
}

var (
	errCause  = errors.New("the caller's own reason for giving up")
	errW      = errors.New("writer failed")
	errPut    = errors.New("put failed")
	errReplay = errors.New("replay failed")
)

// subClass classifies what a subscriber receives / Subscribe returns: nil, closed, or its own error.
func subClass(b any) string {
	switch c := jerrClass(b); c {
	case "nil", "closed":
		return c
	default:
		return "err"
	}
}

func (t *jtracer) get(m map[any]string, a any) string {
	t.mu.Lock()
	defer t.mu.Unlock()
	return m[a]
}

func (t *jtracer) hook(point string, a, b any) {
	switch point {
	case "sub.enter":
		t.mu.Lock()
		t.chans[b] = t.subs[a]
		t.mu.Unlock()
	case "sub.s1.sent":
		t.waitFor("loop.sub:" + t.get(t.subs, a))
	case "sub.s3.sent":
		// (an implementation whose send is not a rendezvous may never get to receive it: Joe's exit ends the wait)
		t.waitFor("loop.unsub:"+t.get(t.subs, a), "loop.exit")
	case "sub.s1.closed", "sub.s2.ctx", "loop.sub", "loop.register":
		t.log(jev{"e": point, "s": t.get(t.subs, a)})
	case "sub.s2.done", "sub.s3.done", "sub.s4.done", "loop.subfail", "loop.fail":
		t.log(jev{"e": point, "s": t.get(t.subs, a), "v": subClass(b)})
	case "loop.unsub":
		t.log(jev{"e": point, "s": t.get(t.chans, a)})
	case "loop.remove":
		// superseded by loop.removing, which carries the membership test's outcome
	case "loop.removing":
		t.log(jev{"e": "loop.remove", "s": t.get(t.chans, a), "present": b.(bool)})
	case "pub.closed", "loop.msg", "loop.reply", "loop.reply.err":
		name := t.get(t.msgs, a)
		if name == "" { // a copy made by an ID-assigning replayer
			name = nameOf(a.(*sse.Message))
		}
		t.log(jev{"e": point, "p": name})
	case "down.pre", "down.ok", "down.recovered", "down.closed", "down.ctx":
		t.log(jev{"e": point, "k": t.get(t.downs, a)})
	case "loop.select", "loop.done", "loop.exit":
		t.log(jev{"e": point})
	default:
		panic("unknown hook " + point)
	}
}

// nameFor: the publication a message object currently stands for (a reused object is published under a new name), else by payload
func (t *jtracer) nameFor(m *sse.Message) string {
	t.mu.Lock()
	n, ok := t.msgs[m]
	t.mu.Unlock()
	if ok {
		return n
	}
	return nameOf(m)
}

// waitIdleAfter waits until Joe has finished the hand-out of publication p (his next loop.select, or his exit) - or never took it
func (t *jtracer) waitIdleAfter(p string) {
	t.mu.Lock()
	defer t.mu.Unlock()
	for {
		taken, idle, refused := false, false, false
		for _, e := range t.evs {
			switch e["e"] {
			case "loop.msg":
				if e["p"] == p {
					taken = true
				}
			case "pub.closed":
				if e["p"] == p {
					refused = true
				}
			case "loop.select", "loop.exit":
				if taken {
					idle = true
				}
			}
		}
		if idle || refused {
			return
		}
		t.cond.Wait()
	}
}

// nameOf recovers the driver's name of a message from its payload (a clone with an automatic ID has another address).
func nameOf(m *sse.Message) string {
	s := m.String()
	i := strings.Index(s, "data: ")
	if i < 0 {
		return "?"
	}
	s = s[i+6:]
	if j := strings.IndexByte(s, '\n'); j >= 0 {
		s = s[:j]
	}
	return s
}

// jw is the recording MessageWriter of one subscriber.
type jw struct {
	t         *jtracer
	id        string
	failSend  int
	failFlush int
	nSend     int
	nFlush    int
	cancel    context.CancelFunc
	cof       bool          // a failing call cancels the subscriber's own context, as net/http does on a write error
	gate      chan struct{} // when set, the first Send blocks until the driver releases it (a slow client)
	entered   chan struct{}
	err       error // what a failing call returns (errW when nil)
}

// writerErr is the error a subscriber's failing Send / Flush returns: for some subscribers an error that wraps a context error
// (a writer bound to a request that went away) although the subscriber's own context is alive - an error like any other.
func writerErr(seed int64, i int) error {
	switch (seed + int64(i)*3) % 7 {
	case 2:
		return fmt.Errorf("write on a connection that went away: %w", context.Canceled)
	case 5:
		return fmt.Errorf("write deadline of the connection: %w", context.DeadlineExceeded)
	}
	return errW
}

func (w *jw) fail() error {
	if w.err != nil {
		return w.err
	}
	return errW
}

func (w *jw) Send(m *sse.Message) error {
	w.nSend++
	fail := w.failSend == w.nSend
	w.t.log(jev{"e": "send", "s": w.id, "p": w.t.nameFor(m), "id": m.ID.String(), "idset": m.ID.IsSet(), "ok": !fail})
	if w.gate != nil && w.nSend == 1 {
		close(w.entered)
		<-w.gate
	}
	if fail {
		if w.cof {
			w.t.log(jev{"e": "cancel", "s": w.id})
			w.cancel()
		}
		return w.fail()
	}
	return nil
}

func (w *jw) Flush() error {
	w.nFlush++
	fail := w.failFlush == w.nFlush
	w.t.log(jev{"e": "flush", "s": w.id, "ok": !fail})
	if fail {
		if w.cof {
			w.t.log(jev{"e": "cancel", "s": w.id})
			w.cancel()
		}
		return w.fail()
	}
	return nil
}

// recRep records the calls reaching the replayer and injects the scripted faults.
type recRep struct {
	t          *jtracer
	inner      sse.Replayer
	nPut       int
	nReplay    int
	putErrAt   int
	putPanic   int
	repErrAt   int
	repPanic   int
	callsDead  int
	errWithMsg bool // a failing Put returns its error together with a non-nil message
}

func (r *recRep) Put(m *sse.Message, tp []string) (*sse.Message, error) {
	r.nPut++
	name := r.t.nameFor(m)
	if r.nPut == r.putPanic {
		r.t.log(jev{"e": "put", "p": name, "v": "panic", "id": "", "idset": false})
		if r.errWithMsg {
			panic(fmt.Errorf("scripted replayer panic in Put: %w", errPut)) // a panic value need not be a string
		}
		panic("scripted replayer panic in Put")
	}
	if r.nPut == r.putErrAt {
		r.t.log(jev{"e": "put", "p": name, "v": "err", "id": "", "idset": false})
		if r.errWithMsg {
			return m, errPut // an error is an error, whatever comes with it
		}
		return nil, errPut
	}
	o, err := r.inner.Put(m, tp)
	if err != nil {
		r.t.log(jev{"e": "put", "p": name, "v": "err", "id": "", "idset": false})
		return o, err
	}
	r.t.log(jev{"e": "put", "p": name, "v": "ok", "id": o.ID.String(), "idset": o.ID.IsSet()})
	return o, nil
}

func (r *recRep) Replay(s sse.Subscription) error {
	r.nReplay++
	w := s.Client.(*jw)
	r.t.log(jev{"e": "rbegin", "s": w.id})
	if r.nReplay == r.repPanic {
		r.t.log(jev{"e": "rend", "s": w.id, "v": "panic"})
		if r.errWithMsg {
			var m map[string]int
			m["a replayer's own bug"] = 1 // a runtime error as panic value
		}
		panic("scripted replayer panic in Replay")
	}
	if r.nReplay == r.repErrAt {
		r.t.log(jev{"e": "rend", "s": w.id, "v": "replayerr"})
		return errReplay
	}
	err := r.inner.Replay(s)
	v := "nil"
	if err != nil {
		v = "err"
	}
	r.t.log(jev{"e": "rend", "s": w.id, "v": v})
	return err
}

type jscenario struct {
	Seed     int64  `json:"seed"`
	Procs    int    `json:"procs"`
	Replayer string `json:"replayer"`
	Focus    string `json:"focus"`
}

var topicSets = [][]string{{""}, {"t"}, {"", "t"}, {"u"}, {"t", "v"}, {}, {"t", "t"}}
var pubTopicSets = [][]string{{""}, {"t"}, {"", "t"}, {"v"}, {"t", "t", ""}, {"t", "u", "t"}}

// runScenario runs one seeded scenario; it returns the events, or blocked=true with a goroutine dump.
func runScenario(seed int64, focus string) (evs []jev, blocked bool, dump string) {
	if focus == "firstuse" {
		return firstUseScenario(seed)
	}
	rng := rand.New(rand.NewSource(seed))
	procs := []int{1, 2, 16}[rng.Intn(3)]
	runtime.GOMAXPROCS(procs)
	t := newTracer(seed*77+1, rng.Intn(3))
	sse.VerifHook = t.hook
	defer func() { sse.VerifHook = nil }()

	repKinds := []string{"finite-manual", "finite-auto", "valid-manual", "valid-auto", "finite3-manual", "none", "scripted"}
	var repKind string
	rcap := 0
	slow := focus == "shutdown" && rng.Intn(5) == 0
	switch {
	case slow:
		focus = "shutdown-slow"
	}
	switch focus {
	case "shutdown-slow":
		repKind = "none"
	case "resume":
		repKind = repKinds[rng.Intn(5)]
	case "faults":
		repKind = []string{"scripted", "scripted", "finite-manual", "none", "valid-manual"}[rng.Intn(5)]
	default:
		repKind = repKinds[rng.Intn(len(repKinds))]
	}
	if focus == "mix" && seed%10 == 3 {
		repKind = "none" // scenarios in which publishers publish one Message object several times (see reuse below)
	}
	auto := strings.HasSuffix(repKind, "auto")
	var rr *recRep
	var rep sse.Replayer
	switch repKind {
	case "finite-manual", "finite-auto":
		fr, _ := sse.NewFiniteReplayer(64, auto)
		rr = &recRep{t: t, inner: fr}
	case "finite3-manual": // small enough to wrap and evict within a scenario
		rcap = 3
		fr, _ := sse.NewFiniteReplayer(rcap, false)
		rr = &recRep{t: t, inner: fr}
	case "valid-manual", "valid-auto":
		vr, _ := sse.NewValidReplayer(time.Hour, auto)
		rr = &recRep{t: t, inner: vr}
	case "scripted":
		fr, _ := sse.NewFiniteReplayer(64, false)
		rr = &recRep{t: t, inner: fr, errWithMsg: rng.Intn(2) == 0}
		switch rng.Intn(5) {
		case 0:
			rr.putErrAt = 1 + rng.Intn(3)
		case 1:
			rr.putPanic = 1 + rng.Intn(4)
		case 2:
			rr.repErrAt = 1 + rng.Intn(2)
		case 3:
			rr.repPanic = 1 + rng.Intn(2)
		case 4:
			rr.putErrAt = 1 + rng.Intn(3)
			rr.repPanic = 1 + rng.Intn(2)
		}
	}
	if rr != nil {
		rep = rr
	}
	j := &sse.Joe{Replayer: rep}
	t.evs = append(t.evs, jev{"e": "reset", "seed": seed, "procs": procs, "replayer": repKind, "auto": auto, "focus": focus, "cap": rcap})

	mk := func(name string) *sse.Message {
		m := &sse.Message{}
		if !auto {
			m.ID = sse.ID(name)
		}
		m.AppendData(name)
		t.mu.Lock()
		t.msgs[m] = name
		t.mu.Unlock()
		return m
	}
	// A publisher's topic lists are the publisher's: it passes the same slices again for later publications, so what a provider
	// does to a list it was given (sorting it, compacting it in place) would show in what the next publication reaches.  The
	// lists handed to Publish are this scenario's own copies; the trace records what the publisher meant (the literals).
	mine := map[string][]string{}
	owned := func(tp []string) []string {
		k := strings.Join(tp, "\x1f")
		if c, ok := mine[k]; ok {
			return c
		}
		c := append([]string(nil), tp...)
		mine[k] = c
		return c
	}
	var ownMu sync.Mutex
	intendedOf := map[*string][]string{}
	intended := func(tp []string) []string {
		ownMu.Lock()
		defer ownMu.Unlock()
		if len(tp) > 0 {
			if lit, ok := intendedOf[&tp[0]]; ok {
				return lit
			}
		}
		return append([]string(nil), tp...)
	}
	ownTopics := func(lit []string) []string {
		ownMu.Lock()
		defer ownMu.Unlock()
		c := owned(lit)
		if len(c) > 0 {
			intendedOf[&c[0]] = append([]string(nil), lit...)
		}
		return c
	}
	// pubObj publishes an existing Message object again under a new name (the same pointer, unchanged content: its ID is wantID)
	pubObj := func(m *sse.Message, name string, tp []string, after, wantID string) {
		t.mu.Lock()
		t.msgs[m] = name
		t.mu.Unlock()
		t.log(jev{"e": "call.pub", "p": name, "t": intended(tp), "after": after, "wantid": wantID})
		err := j.Publish(m, tp)
		t.log(jev{"e": "ret.pub", "p": name, "v": jerrClass(err)})
	}
	pub := func(name string, tp []string, after string) {
		m := mk(name)
		t.log(jev{"e": "call.pub", "p": name, "t": intended(tp), "after": after})
		err := j.Publish(m, tp)
		t.log(jev{"e": "ret.pub", "p": name, "v": jerrClass(err)})
	}
	down := func(k string, ctx context.Context) {
		t.mu.Lock()
		t.downs[ctx] = k
		t.mu.Unlock()
		_, hasDeadline := ctx.Deadline()
		t.log(jev{"e": "call.down", "k": k, "ctxdone": ctx.Err() != nil || hasDeadline})
		err := j.Shutdown(ctx)
		t.log(jev{"e": "ret.down", "k": k, "v": jerrClass(err)})
	}

	var wg sync.WaitGroup
	if slow {
		return slowSendScenario(seed, rng, t, j, pub, down)
	}
	if focus == "shutdown" && rng.Intn(6) == 0 {
		// shutdown before anything else has initialised the provider
		down("k9", context.WithValue(context.Background(), ctxKey{}, "k9"))
	}
	// many topics: more distinct topic names than a machine word has bits pass through one provider before the subscribers come
	many := focus == "mix" && seed%17 == 5
	manyTopics := func(a, b int) (tp []string) {
		for i := a; i < b; i++ {
			tp = append(tp, "m"+strconv.Itoa(i))
		}
		return
	}
	// pre-history, so that subscribers can present IDs of buffered events
	npre := rng.Intn(5)
	if many {
		npre = 2
	}
	var hist []string
	for i := 0; i < npre; i++ {
		name := "h" + strconv.Itoa(i)
		prev := "<none>"
		if i > 0 {
			prev = hist[i-1]
		}
		hist = append(hist, name)
		tp := ownTopics(pubTopicSets[rng.Intn(3)])
		if many {
			tp = manyTopics(i*40, i*40+40-i*10) // m0..m39, then m40..m69
		}
		pub(name, tp, prev)
		_ = i
	}
	nsub := 1 + rng.Intn(3)
	cancels := make([]context.CancelFunc, nsub)
	for i := 0; i < nsub; i++ {
		ctx, cancel := context.WithCancel(context.Background())
		cancels[i] = cancel
		id := "s" + strconv.Itoa(i)
		w := &jw{t: t, id: id, cancel: cancel, err: writerErr(seed, i)}
		pf := 3
		if focus == "faults" {
			pf = 2
		}
		if rng.Intn(pf) == 0 {
			if rng.Intn(3) == 0 {
				w.failFlush = 1 + rng.Intn(3)
			} else {
				w.failSend = 1 + rng.Intn(4)
			}
			w.cof = rng.Intn(2) == 0
		}
		t.mu.Lock()
		t.subs[w] = id
		t.mu.Unlock()
		tp := topicSets[rng.Intn(len(topicSets))]
		if many {
			tp = [][]string{{"m64"}, {"m65", "m3"}, {"m1"}}[i%3]
		}
		lid, lidSet, lidName := "", false, ""
		if len(hist) > 0 && rng.Intn(3) != 0 {
			lidSet = true
			switch rng.Intn(5) {
			case 0:
				lid = "never-issued"
			case 1: // the newest buffered event: the steady-state reconnect
				lidName = hist[len(hist)-1]
				lid = lidName
				if auto {
					lid = strconv.Itoa(len(hist) - 1)
				}
			default:
				k := rng.Intn(len(hist))
				lidName = hist[k]
				lid = lidName
				if auto {
					lid = strconv.Itoa(k)
				}
			}
		}
		delay := time.Duration(rng.Intn(200)) * time.Microsecond
		wg.Add(1)
		go func() {
			defer wg.Done()
			time.Sleep(delay)
			sub := sse.Subscription{Client: w, Topics: tp}
			if lidSet {
				sub.LastEventID = sse.ID(lid)
			}
			t.log(jev{"e": "call.sub", "s": id, "t": tp, "lid": lid, "lidset": lidSet, "lidname": lidName})
			err := j.Subscribe(ctx, sub)
			t.log(jev{"e": "ret.sub", "s": id, "v": subClass(err)})
		}()
		if rng.Intn(3) == 0 {
			d := time.Duration(rng.Intn(400)) * time.Microsecond
			wg.Add(1)
			go func() {
				defer wg.Done()
				time.Sleep(d)
				t.log(jev{"e": "cancel", "s": id})
				cancel()
			}()
		}
	}
	npub := 1 + rng.Intn(3)
	reuse := repKind == "none" && (seed%3 == 0 || seed%10 == 3) // publishers that publish one Message object several times
	for p := 0; p < npub; p++ {
		p := p
		nk := 1 + rng.Intn(3)
		sets := make([][]string, nk)
		for k := range sets {
			sets[k] = ownTopics(pubTopicSets[rng.Intn(len(pubTopicSets))])
			if many {
				sets[k] = [][]string{{"m64"}, {"m65"}, {"m1", "m64"}}[rng.Intn(3)]
			}
		}
		d := time.Duration(rng.Intn(150)) * time.Microsecond
		wg.Add(1)
		go func() {
			defer wg.Done()
			time.Sleep(d)
			prev := "<none>"
			var shared *sse.Message
			for k := 0; k < nk; k++ {
				name := "p" + strconv.Itoa(p) + "k" + strconv.Itoa(k)
				switch {
				case reuse && k == 0:
					shared = mk(name)
					pubObj(shared, name, sets[k], prev, name)
				case reuse:
					// the same Message object, untouched, published again once Joe is done with the previous publication
					t.waitIdleAfter(prev)
					pubObj(shared, name, sets[k], prev, "p"+strconv.Itoa(p)+"k0")
				default:
					pub(name, sets[k], prev)
				}
				prev = name
			}
		}()
	}
	time.Sleep(time.Duration(rng.Intn(500)) * time.Microsecond)
	if rng.Intn(2) == 0 {
		for i := range cancels {
			t.log(jev{"e": "cancel", "s": "s" + strconv.Itoa(i)})
			cancels[i]()
		}
	}
	if rng.Intn(2) == 0 {
		wg.Add(1)
		go func() { defer wg.Done(); down("k1", context.WithValue(context.Background(), ctxKey{}, "k1")) }()
	}
	if rng.Intn(8) == 0 {
		// a Shutdown whose context is already done: it must return that context's error or ErrProviderClosed
		// (a context with a cause of its own: Shutdown reports the context's error, not the cause)
		cctx, cc := context.WithCancelCause(context.WithValue(context.Background(), ctxKey{}, "k2"))
		cc(errCause)
		wg.Add(1)
		go func() { defer wg.Done(); down("k2", cctx) }()
	}
	// the last Shutdown and the calls after it run under the same deadline as everything else: a Joe whose goroutine
	// is stuck (in a replayer, say) makes this Shutdown wait for ever, and that is a verdict, not a hung driver
	latePub, lateSub := rng.Intn(2) == 0, rng.Intn(2) == 0
	wg.Add(1)
	go func() {
		defer wg.Done()
		down("k0", context.WithValue(context.Background(), ctxKey{}, "k0"))
		// calls after shutdown must be refused
		if latePub {
			pub("late", []string{""}, "<none>")
		}
		if lateSub {
			w := &jw{t: t, id: "slate"}
			t.mu.Lock()
			t.subs[w] = "slate"
			t.mu.Unlock()
			t.log(jev{"e": "call.sub", "s": "slate", "t": []string{""}, "lid": "", "lidset": false, "lidname": ""})
			err := j.Subscribe(context.Background(), sse.Subscription{Client: w, Topics: []string{""}})
			t.log(jev{"e": "ret.sub", "s": "slate", "v": subClass(err)})
		}
	}()
	fin := make(chan struct{})
	go func() {
		wg.Wait()
		// Joe's goroutine must be gone too (a Shutdown may return its context's error before that)
		t.waitFor("loop.exit")
		close(fin)
	}()
	select {
	case <-fin:
	case <-time.After(10 * time.Second):
		buf := make([]byte, 1<<18)
		n := runtime.Stack(buf, true)
		t.mu.Lock()
		evs = append([]jev(nil), t.evs...)
		t.mu.Unlock()
		return evs, true, string(buf[:n])
	}
	for _, c := range cancels {
		c()
	}
	t.mu.Lock()
	defer t.mu.Unlock()
	return t.evs, false, ""
}

type ctxKey struct{}

// slowSendScenario: Joe is held inside a subscriber's Send while a Shutdown whose context expires is
// called: that Shutdown must return its context's error while the Send is still in progress (C07:
// "its context's error if that ends first"); the driver releases the Send only afterwards.
func slowSendScenario(seed int64, rng *rand.Rand, t *jtracer, j *sse.Joe, pub func(string, []string, string), down func(string, context.Context)) (evs []jev, blocked bool, dump string) {
	ctx, cancel := context.WithCancel(context.Background())
	defer cancel()
	w := &jw{t: t, id: "s0", cancel: cancel, gate: make(chan struct{}), entered: make(chan struct{})}
	t.mu.Lock()
	t.subs[w] = "s0"
	t.mu.Unlock()
	var wg sync.WaitGroup
	wg.Add(1)
	go func() {
		defer wg.Done()
		t.log(jev{"e": "call.sub", "s": "s0", "t": []string{""}, "lid": "", "lidset": false, "lidname": ""})
		err := j.Subscribe(ctx, sse.Subscription{Client: w, Topics: []string{""}})
		t.log(jev{"e": "ret.sub", "s": "s0", "v": subClass(err)})
	}()
	t.waitFor("loop.register:s0")
	wg.Add(1)
	go func() { defer wg.Done(); pub("p0k0", []string{""}, "<none>") }()
	fin := make(chan struct{})
	go func() {
		<-w.entered // Joe is inside Send now
		dctx, dc := context.WithTimeoutCause(context.WithValue(context.Background(), ctxKey{}, "k0"), time.Duration(1+rng.Intn(3))*time.Millisecond, errCause)
		down("k0", dctx) // must come back with the context's error although Joe cannot finish
		dc()
		close(w.gate)
		wg.Wait()
		down("k1", context.WithValue(context.Background(), ctxKey{}, "k1")) // ErrProviderClosed
		t.waitFor("loop.exit")
		close(fin)
	}()
	select {
	case <-fin:
	case <-time.After(10 * time.Second):
		select {
		case <-w.gate:
		default:
			close(w.gate)
		}
		buf := make([]byte, 1<<18)
		n := runtime.Stack(buf, true)
		t.mu.Lock()
		evs = append([]jev(nil), t.evs...)
		t.mu.Unlock()
		return evs, true, string(buf[:n])
	}
	t.mu.Lock()
	defer t.mu.Unlock()
	return t.evs, false, ""
}

// cmdJoe: runs scenarios seed*100000 .. +n and writes their traces; exit 3 = a call blocked (C07), a Go panic kills the process (C06).
func cmdJoe(args []string) {
	fs := flag.NewFlagSet("joe", flag.ExitOnError)
	n := fs.Int("n", 100, "scenarios")
	base := fs.Int64("base", 1, "first scenario seed")
	outp := fs.String("o", "", "trace file (ndjson)")
	focus := fs.String("focus", "mix", "mix | resume | faults | shutdown")
	fs.Parse(args)
	f, err := os.Create(*outp)
	if err != nil {
		fatal("create: %v", err)
	}
	defer f.Close()
	enc := json.NewEncoder(f)
	for i := 0; i < *n; i++ {
		seed := *base + int64(i)
		fmt.Fprintf(os.Stderr, "SCENARIO %d\n", seed)
		// a scenario has its own 10 s deadline for the calls it watches; a call the driver makes outside that watch (on this
		// goroutine) and that never returns is the same finding, so the whole scenario is watched once more from here
		type res struct {
			evs     []jev
			blocked bool
			dump    string
		}
		outer := 40 * time.Second
		if *focus == "firstuse" {
			outer = 4 * time.Minute // 150 trials on fresh providers in one scenario
		}
		rc := make(chan res, 1)
		go func() {
			evs, blocked, dump := runScenario(seed, *focus)
			rc <- res{evs, blocked, dump}
		}()
		var r res
		select {
		case r = <-rc:
		case <-time.After(outer):
			buf := make([]byte, 1<<18)
			r = res{nil, true, string(buf[:runtime.Stack(buf, true)])}
		}
		evs, blocked, dump := r.evs, r.blocked, r.dump
		if blocked {
			fmt.Fprintf(os.Stderr, "BLOCKED %d\n%s\n", seed, dump)
			for _, e := range evs {
				enc.Encode(e)
			}
			f.Sync()
			os.Exit(3)
		}
		for _, e := range evs {
			enc.Encode(e)
		}
	}
}

func init() {
	commands["joe"] = cmdJoe
}
