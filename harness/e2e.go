package main

import (
	"context"
	"encoding/json"
	"flag"
	"fmt"
	"io"
	stdlog "log"
	"math/rand"
	"net"
	"net/http"
	"net/http/httptest"
	"os"
	"strconv"
	"strings"
	"sync"
	"sync/atomic"
	"time"

	sse "github.com/tmaxmax/go-sse"
)

// C05, direction B: the library's client against the library's server over real loopback connections
// that a listener wrapper cuts at byte offsets / moments drawn by seed.

type e2eLog struct {
	mu  sync.Mutex
	evs []jev
}

func (l *e2eLog) add(e jev) {
	l.mu.Lock()
	l.evs = append(l.evs, e)
	l.mu.Unlock()
}

type cutPlan struct {
	kind   string // "none" | "rst" | "fin" | "handler" | "rst-quiet" (the client loses the connection, the server only notices at its next write)
	offset int    // cut when this many response bytes have been written
	after  time.Duration
}

type cutConn struct {
	net.Conn
	id      int
	plan    cutPlan
	written int
	mu      sync.Mutex
	cut     bool
	cancel  context.CancelFunc // ends the handler (set by the handler)
	log     *e2eLog
	quiet   bool          // after the cut the server's reads block instead of failing: it has not noticed
	release chan struct{} // closed when the server gives up the connection (read deadline, Close)
	relOnce sync.Once
}

func (c *cutConn) doRelease() { c.relOnce.Do(func() { close(c.release) }) }

// Read hides a quiet cut from the server: its pending read just does not return until the server itself gives the
// connection up (net/http aborts the background read through SetReadDeadline when the handler is done).
func (c *cutConn) Read(p []byte) (int, error) {
	n, err := c.Conn.Read(p)
	if err != nil {
		c.mu.Lock()
		q := c.cut && c.quiet
		c.mu.Unlock()
		if q {
			<-c.release
		}
	}
	return n, err
}

func (c *cutConn) SetReadDeadline(t time.Time) error {
	if !t.IsZero() && !t.After(time.Now()) {
		c.doRelease()
	}
	return c.Conn.SetReadDeadline(t)
}

func (c *cutConn) SetDeadline(t time.Time) error {
	if !t.IsZero() && !t.After(time.Now()) {
		c.doRelease()
	}
	return c.Conn.SetDeadline(t)
}

func (c *cutConn) Close() error {
	c.doRelease()
	return c.Conn.Close()
}

func (c *cutConn) doCut(kind, why string) {
	c.mu.Lock()
	if c.cut {
		c.mu.Unlock()
		return
	}
	c.cut = true
	if kind == "rst-quiet" {
		c.quiet = true
	}
	cancel := c.cancel
	c.mu.Unlock()
	c.log.add(jev{"e": "cut", "c": c.id, "kind": kind, "at": c.written, "why": why})
	switch kind {
	case "rst", "rst-quiet":
		if tc, ok := c.Conn.(*net.TCPConn); ok {
			tc.SetLinger(0)
		}
		c.Conn.Close()
	case "fin":
		c.Conn.Close()
	case "handler":
		if cancel != nil {
			cancel()
		}
	}
}

func (c *cutConn) Write(p []byte) (int, error) {
	c.mu.Lock()
	plan, w, cut := c.plan, c.written, c.cut
	c.mu.Unlock()
	if cut && plan.kind != "handler" {
		return 0, net.ErrClosed
	}
	if plan.kind != "none" && !cut && plan.offset > 0 && w+len(p) >= plan.offset {
		if plan.kind == "handler" {
			n, err := c.Conn.Write(p)
			c.mu.Lock()
			c.written += n
			c.mu.Unlock()
			c.doCut("handler", "offset")
			return n, err
		}
		k := plan.offset - w
		if k < 0 {
			k = 0
		}
		if k > len(p) {
			k = len(p)
		}
		n, _ := c.Conn.Write(p[:k])
		c.mu.Lock()
		c.written += n
		c.mu.Unlock()
		c.doCut(plan.kind, "offset")
		return n, net.ErrClosed
	}
	n, err := c.Conn.Write(p)
	c.mu.Lock()
	c.written += n
	c.mu.Unlock()
	return n, err
}

type cutListener struct {
	net.Listener
	log     *e2eLog
	rng     *rand.Rand
	mu      sync.Mutex
	n       int
	enabled bool
	budget  int
	conns   []*cutConn
}

func (l *cutListener) Accept() (net.Conn, error) {
	c, err := l.Listener.Accept()
	if err != nil {
		return c, err
	}
	l.mu.Lock()
	l.n++
	cc := &cutConn{Conn: c, id: l.n, log: l.log, plan: cutPlan{kind: "none"}, release: make(chan struct{})}
	if l.enabled && l.budget > 0 {
		l.budget--
		switch l.rng.Intn(9) {
		case 7:
			cc.plan = cutPlan{kind: "rst-quiet", offset: 100 + l.rng.Intn(900)}
		case 8:
			cc.plan = cutPlan{kind: "rst-quiet", after: time.Duration(300+l.rng.Intn(3000)) * time.Microsecond}
		case 0, 1:
			cc.plan = cutPlan{kind: "rst", offset: 1 + l.rng.Intn(900)}
		case 2:
			cc.plan = cutPlan{kind: "fin", offset: 1 + l.rng.Intn(900)}
		case 3:
			cc.plan = cutPlan{kind: "handler", offset: 120 + l.rng.Intn(800)}
		case 4:
			cc.plan = cutPlan{kind: "rst", offset: 1 + l.rng.Intn(90)} // inside the response headers
		case 5:
			cc.plan = cutPlan{kind: []string{"rst", "fin"}[l.rng.Intn(2)], after: time.Duration(l.rng.Intn(3000)) * time.Microsecond}
		case 6:
			cc.plan = cutPlan{kind: "handler", after: time.Duration(500+l.rng.Intn(3000)) * time.Microsecond}
		}
	}
	// a third of the byte-offset cuts come late in a connection: several KB of events were consumed before
	// (the client's 4 KiB scanner buffer has been refilled, the cut falls into a later event)
	if cc.plan.offset > 0 && cc.plan.kind != "none" && l.rng.Intn(3) == 0 {
		cc.plan.offset += 2000 + l.rng.Intn(6000)
	}
	l.conns = append(l.conns, cc)
	plan := cc.plan
	l.mu.Unlock()
	if plan.after > 0 {
		go func() {
			time.Sleep(plan.after)
			cc.mu.Lock()
			w := cc.written
			cc.mu.Unlock()
			kind := plan.kind
			if kind == "handler" && w == 0 {
				kind = "rst" // a handler that ends before anything was sent is outside the property
			}
			cc.doCut(kind, "timer")
		}()
	}
	return cc, nil
}

type connKey struct{}

type e2eMsg struct {
	id, typ, data string
}

// e2ePublisher builds the k-th message the way one kind of publisher would: "fresh" (a new Message per event), "template" (a
// clone of one template message with the variable part appended - the template has spare room in its chunk list) or "reuse" (the
// same Message object published every time, a tick; only with automatic IDs, where the replayer numbers its own copy).
type e2ePublisher struct {
	style string
	auto  bool
	tpl   *sse.Message
	tick  *sse.Message
}

func newE2EPublisher(style string, auto bool) *e2ePublisher {
	p := &e2ePublisher{style: style, auto: auto}
	p.tpl = &sse.Message{}
	p.tpl.AppendData("template line 1", "template line 2", "template line 3")
	p.tick = &sse.Message{}
	p.tick.AppendData("tick")
	return p
}

func (p *e2ePublisher) message(k int) (m *sse.Message, want e2eMsg) {
	switch p.style {
	case "template":
		m = p.tpl.Clone()
		want.id = strconv.Itoa(k)
		if p.auto {
			want.id = strconv.Itoa(k - 1)
		} else {
			m.ID = sse.ID(want.id)
		}
		if k%3 == 0 {
			want.typ = "kind" + strconv.Itoa(k%5)
			m.Type = sse.Type(want.typ)
		}
		m.AppendData("value: " + strconv.Itoa(k))
		want.data = "template line 1\ntemplate line 2\ntemplate line 3\nvalue: " + strconv.Itoa(k)
		return
	case "reuse":
		return p.tick, e2eMsg{id: strconv.Itoa(k - 1), data: "tick"}
	}
	return e2eMessage(k, p.auto)
}

func e2eMessage(k int, auto bool) (m *sse.Message, want e2eMsg) {
	m = &sse.Message{}
	want.id = strconv.Itoa(k)
	if auto {
		want.id = strconv.Itoa(k - 1)
	} else {
		m.ID = sse.ID(want.id)
	}
	if k%3 == 0 {
		want.typ = "kind" + strconv.Itoa(k%5)
		m.Type = sse.Type(want.typ)
	}
	switch k % 4 {
	case 0:
		m.AppendData("payload "+strconv.Itoa(k), "second: line\r\nthird")
		want.data = "payload " + strconv.Itoa(k) + "\nsecond: line\nthird"
	case 1:
		m.AppendData("p" + strconv.Itoa(k))
		want.data = "p" + strconv.Itoa(k)
	case 2:
		m.AppendComment("a comment")
		size := k % 50 * 20
		if k%10 == 6 {
			size = 6000 // larger than the client's initial scanner buffer: a cut inside it comes after the buffer was refilled
		}
		m.AppendData("id: looks like a field " + strconv.Itoa(k) + strings.Repeat("x", size))
		want.data = "id: looks like a field " + strconv.Itoa(k) + strings.Repeat("x", size)
	case 3:
		m.AppendData("", "after an empty line "+strconv.Itoa(k))
		m.Retry = time.Duration(k) * time.Millisecond
		want.data = "after an empty line " + strconv.Itoa(k)
	}
	return
}

// runE2E returns the trace of one run; incomplete=true means the run could not be judged (exit 2 material).
func runE2E(seed int64, total int) (evs []jev, incomplete string) {
	rng := rand.New(rand.NewSource(seed))
	log := &e2eLog{}
	auto := rng.Intn(2) == 0
	kind := []string{"finite", "valid"}[rng.Intn(2)]
	var rep sse.Replayer
	if kind == "finite" {
		// exactly as large as the run: the ring is full and its write index back at 0 when the last event is in
		rep, _ = sse.NewFiniteReplayer(total, auto)
	} else {
		rep, _ = sse.NewValidReplayer(time.Hour, auto)
	}
	joe := &sse.Joe{Replayer: rep}
	srv := &sse.Server{Provider: joe}
	onSession := rng.Intn(2) == 0
	if onSession {
		// a server with a session callback that lets everybody in on the default topic: resuming works the same
		srv.OnSession = func(http.ResponseWriter, *http.Request) ([]string, bool) { return nil, true }
	}
	style := []string{"fresh", "fresh", "template", "reuse"}[rng.Intn(4)]
	if style == "reuse" && !auto {
		style = "template" // with its own ID a message is one event: publishing it twice would be the publisher's duplicate
	}
	pubr := newE2EPublisher(style, auto)
	log.add(jev{"e": "reset", "seed": seed, "total": total, "replayer": kind, "auto": auto, "onsession": onSession, "publisher": style})
	want := map[string]e2eMsg{}
	idToK := func(s string) int {
		if s == "" {
			return 0
		}
		n, err := strconv.Atoi(s)
		if err != nil {
			return -1
		}
		if auto {
			return n + 1
		}
		return n
	}
	ts := httptest.NewUnstartedServer(http.HandlerFunc(func(w http.ResponseWriter, r *http.Request) {
		cc, _ := r.Context().Value(connKey{}).(*cutConn)
		ctx, cancel := context.WithCancel(r.Context())
		defer cancel()
		cid := 0
		if cc != nil {
			cc.mu.Lock()
			cc.cancel = cancel
			cc.mu.Unlock()
			cid = cc.id
		}
		log.add(jev{"e": "req", "c": cid, "lid": idToK(r.Header.Get("Last-Event-Id")), "raw": r.Header.Get("Last-Event-Id")})
		srv.ServeHTTP(w, r.WithContext(ctx))
	}))
	cl := &cutListener{Listener: ts.Listener, log: log, rng: rand.New(rand.NewSource(seed * 13))}
	ts.Listener = cl
	ts.Config.ErrorLog = stdlog.New(io.Discard, "", 0)
	ts.Config.ConnContext = func(ctx context.Context, c net.Conn) context.Context { return context.WithValue(ctx, connKey{}, c) }
	ts.Start()
	defer ts.Close()

	cctx, ccancel := context.WithCancel(context.Background())
	defer ccancel()
	var lastRecv atomic.Int64
	var nrecv atomic.Int64
	client := &sse.Client{
		HTTPClient: &http.Client{Transport: &http.Transport{DisableKeepAlives: true}},
		Backoff:    sse.Backoff{InitialInterval: time.Millisecond, Multiplier: 1.5, MaxInterval: 4 * time.Millisecond, Jitter: 0.3},
		OnRetry:    func(err error, d time.Duration) { log.add(jev{"e": "retry", "err": clipStr(fmt.Sprint(err), 120)}) },
	}
	req, _ := http.NewRequestWithContext(cctx, http.MethodGet, ts.URL, http.NoBody)
	conn := client.NewConnection(req)
	var wmu sync.Mutex
	conn.SubscribeToAll(func(e sse.Event) {
		k := idToK(e.LastEventID)
		wmu.Lock()
		w, ok := want[e.LastEventID]
		wmu.Unlock()
		same := ok && w.typ == e.Type && w.data == e.Data
		ev := jev{"e": "ev", "id": k, "same": same}
		if !same {
			ev["got"] = fmt.Sprintf("id=%q type=%q data=%q", e.LastEventID, e.Type, clipStr(e.Data, 80))
			ev["want"] = fmt.Sprintf("type=%q data=%q (known=%v)", w.typ, clipStr(w.data, 80), ok)
		}
		log.add(ev)
		lastRecv.Store(int64(k))
		nrecv.Add(1)
	})
	connDone := make(chan error, 1)
	go func() { connDone <- conn.Connect() }()

	publish := func(k int) bool {
		m, w := pubr.message(k)
		wmu.Lock()
		want[w.id] = w
		wmu.Unlock()
		log.add(jev{"e": "pub", "i": k})
		err := srv.Publish(m)
		log.add(jev{"e": "pubret", "i": k, "ok": err == nil, "err": fmt.Sprint(err)})
		if err != nil {
			incomplete = fmt.Sprintf("Publish(%d) failed: %v", k, err)
			return false
		}
		return true
	}
	waitFor := func(cond func() bool, d time.Duration) bool {
		dl := time.Now().Add(d)
		for time.Now().Before(dl) {
			if cond() {
				return true
			}
			select {
			case err := <-connDone:
				connDone <- err
				return cond()
			default:
			}
			time.Sleep(200 * time.Microsecond)
		}
		return cond()
	}
	k := 0
	// until the client has its first event nothing is demanded: publish slowly until one arrives
	for nrecv.Load() == 0 && k < total/3 {
		k++
		if !publish(k) {
			return log.evs, incomplete
		}
		waitFor(func() bool { return nrecv.Load() > 0 }, 30*time.Millisecond)
	}
	if nrecv.Load() == 0 {
		return log.evs, "the client did not receive a first event"
	}
	cl.mu.Lock()
	cl.enabled, cl.budget = true, 6+rng.Intn(8)
	cl.mu.Unlock()
	// cut the established connection too
	cl.mu.Lock()
	var cur *cutConn
	if len(cl.conns) > 0 {
		cur = cl.conns[len(cl.conns)-1]
	}
	cl.mu.Unlock()
	if cur != nil && rng.Intn(2) == 0 {
		go func() {
			time.Sleep(time.Duration(rng.Intn(2000)) * time.Microsecond)
			cur.doCut([]string{"rst", "fin", "handler", "rst-quiet"}[int(seed)%4], "first")
		}()
	}
	curConn := func() *cutConn {
		cl.mu.Lock()
		defer cl.mu.Unlock()
		if len(cl.conns) == 0 {
			return nil
		}
		return cl.conns[len(cl.conns)-1]
	}
	nreq := func() int {
		log.mu.Lock()
		defer log.mu.Unlock()
		n := 0
		for _, e := range log.evs {
			if e["e"] == "req" {
				n++
			}
		}
		return n
	}
	// a cut in a quiet moment: the client has everything, reconnects with the newest ID before anything new
	// is published - the steady-state reconnect, which must replay nothing
	quietCut := func(kind string) {
		if !waitFor(func() bool { return lastRecv.Load() == int64(k) }, 2*time.Second) {
			return
		}
		before := nreq()
		if c := curConn(); c != nil {
			c.doCut(kind, "quiet")
		}
		waitFor(func() bool { return nreq() > before }, 500*time.Millisecond)
		time.Sleep(2 * time.Millisecond)
	}
	for k < total {
		k++
		if !publish(k) {
			return log.evs, incomplete
		}
		if d := rng.Intn(6); d > 0 {
			time.Sleep(time.Duration(d*150) * time.Microsecond)
		}
		if rng.Intn(7) == 0 {
			quietCut([]string{"rst", "fin", "handler", "rst-quiet"}[rng.Intn(4)])
		}
	}
	cl.mu.Lock()
	cl.enabled = false
	cl.mu.Unlock()
	caught := waitFor(func() bool { return lastRecv.Load() == int64(total) }, 15*time.Second)
	if caught {
		quietCut("rst")
		time.Sleep(20 * time.Millisecond) // anything replayed by mistake arrives now
	}
	select {
	case err := <-connDone:
		// Connect ended although retries are unbounded and nobody cancelled: permanent error (e.g. an empty 200) - outside the property if no wrong event was seen
		log.add(jev{"e": "note", "connect_returned": fmt.Sprint(err)})
		if !caught {
			incomplete = "Connect returned: " + fmt.Sprint(err)
		}
	default:
	}
	if caught {
		log.add(jev{"e": "end"})
	} else if incomplete == "" {
		incomplete = fmt.Sprintf("no catch-up within the deadline (last received %d of %d)", lastRecv.Load(), total)
	}
	ccancel()
	sctx, sc := context.WithTimeout(context.Background(), 5*time.Second)
	if err := srv.Shutdown(sctx); err != nil {
		log.add(jev{"e": "note", "shutdown": fmt.Sprint(err)})
	}
	sc()
	log.mu.Lock()
	defer log.mu.Unlock()
	return log.evs, incomplete
}

func cmdE2E(args []string) {
	fs := flag.NewFlagSet("e2e", flag.ExitOnError)
	n := fs.Int("n", 10, "runs")
	base := fs.Int64("base", 1, "first seed")
	total := fs.Int("events", 60, "events published per run")
	outp := fs.String("o", "", "trace file")
	fs.Parse(args)
	f, err := os.Create(*outp)
	if err != nil {
		fatal("create: %v", err)
	}
	defer f.Close()
	enc := json.NewEncoder(f)
	inc := 0
	for i := 0; i < *n; i++ {
		seed := *base + int64(i)
		fmt.Fprintf(os.Stderr, "SCENARIO %d\n", seed)
		evs, incomplete := runE2E(seed, *total)
		if incomplete != "" {
			// keep what was observed: a wrong event is still a wrong event; the run just has no "end"
			fmt.Fprintf(os.Stderr, "INCOMPLETE %d %s\n", seed, incomplete)
			inc++
		}
		for _, e := range evs {
			enc.Encode(e)
		}
	}
	fmt.Fprintf(os.Stderr, "DONE incomplete=%d\n", inc)
}

func init() {
	commands["e2e"] = cmdE2E
}
