package main

import (
	"context"
	"encoding/json"
	"flag"
	"fmt"
	"io"
	"net/http"
	"strconv"
	"strings"
	"sync"
	"time"

	sse "github.com/tmaxmax/go-sse"
)

// cmdFieldsExtra: C14 — inputs of the decoders that are not strings of the generation alphabet:
// JSON documents (null, non-strings, escaped line breaks) and driver values of other types.
func cmdFieldsExtra(args []string) {
	fs := flag.NewFlagSet("fields-extra", flag.ExitOnError)
	out := fs.String("out", "", "result file")
	fs.Parse(args)
	res := newResult()
	type jc struct {
		doc     string
		set     bool
		val     string
		wantErr bool
	}
	docs := []jc{
		{`null`, false, "", false}, {`123`, false, "", true}, {`true`, false, "", true}, {`{}`, false, "", true}, {`["a"]`, false, "", true},
		{`"ok"`, true, "ok", false}, {`""`, true, "", false}, {`"a b: c"`, true, "a b: c", false}, {`"\u0000"`, true, "\x00", false},
		{`"a\nb"`, false, "", true}, {`"a\u000ab"`, false, "", true}, {`"a\rb"`, false, "", true}, {`"\u000d"`, false, "", true}, {`"x\r\ndata: y"`, false, "", true},
		{`"a\\nb"`, true, `a\nb`, false}, {`"unterminated`, false, "", true},
		// byte slices that are no JSON at all (a raw line break inside the quotes), handed to UnmarshalJSON directly: an error, nothing set
		{"\"a\nb\"", false, "", true}, {"\"a\rb\"", false, "", true}, {"\"\n\"", false, "", true}, {"\"x\r\ndata: y\"", false, "", true},
	}
	check := func(kind, what string, isSet bool, val string, err error, wantSet bool, wantVal string, wantErr bool) {
		res.eval(1)
		res.nontrivial(kind + what)
		if isSet && strings.ContainsAny(val, "\r\n") {
			res.violate(fmt.Sprintf("%s %s: IsSet with the multi-line value %q", kind, what, val), "fields:multiline", map[string]any{"input": what})
		}
		if isSet != wantSet || (wantSet && val != wantVal) || (err != nil) != wantErr {
			res.violate(fmt.Sprintf("%s %s: set=%v %q err=%v, want set=%v %q err=%v", kind, what, isSet, val, err, wantSet, wantVal, wantErr), "fields:value", map[string]any{"input": what})
		}
	}
	for _, d := range docs {
		id := sse.ID("previous")
		err := id.UnmarshalJSON([]byte(d.doc))
		check("EventID", "UnmarshalJSON("+d.doc+")", id.IsSet(), id.String(), err, d.set, d.val, d.wantErr)
		ty := sse.Type("previous")
		err = ty.UnmarshalJSON([]byte(d.doc))
		check("EventType", "UnmarshalJSON("+d.doc+")", ty.IsSet(), ty.String(), err, d.set, d.val, d.wantErr)
	}
	for _, v := range []any{nil, 42, 3.5, true, time.Time{}, []string{"a"}} {
		id := sse.ID("previous")
		err := id.Scan(v)
		check("EventID", fmt.Sprintf("Scan(%T)", v), id.IsSet(), id.String(), err, false, "", v != nil)
		ty := sse.Type("previous")
		err = ty.Scan(v)
		check("EventType", fmt.Sprintf("Scan(%T)", v), ty.IsSet(), ty.String(), err, false, "", v != nil)
	}
	res.sample(map[string]any{"json_documents": len(docs), "example": docs[10]})
	res.write(*out)
}

type pubRec struct {
	mu   sync.Mutex
	ids  []string
	sent []*sse.Message
}

func (p *pubRec) Send(m *sse.Message) error {
	p.mu.Lock()
	p.ids = append(p.ids, m.ID.String())
	p.sent = append(p.sent, m)
	p.mu.Unlock()
	return nil
}
func (p *pubRec) Flush() error { return nil }
func (p *pubRec) snapshot() []string {
	p.mu.Lock()
	defer p.mu.Unlock()
	return append([]string(nil), p.ids...)
}

// cmdPublishSame: C19 — one Message published any number of times is never modified and every
// publication gets its own ID (both replayers, both ID modes, and through Joe).
func cmdPublishSame(args []string) {
	fs := flag.NewFlagSet("publish-same", flag.ExitOnError)
	out := fs.String("out", "", "result file")
	fs.Parse(args)
	res := newResult()
	mk := func(auto bool, kind string) sse.Replayer {
		if kind == "finite" {
			r, _ := sse.NewFiniteReplayer(3, auto)
			return r
		}
		r, _ := sse.NewValidReplayer(time.Hour, auto)
		return r
	}
	for _, kind := range []string{"finite", "valid"} {
		for _, auto := range []bool{true, false} {
			for n := 1; n <= 6; n++ {
				name := fmt.Sprintf("%s/auto=%v/n=%d", kind, auto, n)
				rep := mk(auto, kind)
				m := &sse.Message{Type: sse.Type("t")}
				for c := 0; c < n; c++ { // n chunks: the chunk slice has spare capacity for n = 3, 5, 6
					m.AppendData("chunk" + strconv.Itoa(c))
				}
				if !auto {
					m.ID = sse.ID("fixed")
				}
				before := m.String()
				var got []string
				for i := 0; i < n; i++ {
					o, err := rep.Put(m, []string{sse.DefaultTopic})
					if err != nil || o == nil {
						res.violate(fmt.Sprintf("%s: Put %d failed: %v", name, i, err), "publish:put", nil)
						break
					}
					got = append(got, o.ID.String())
					if auto && (o == m || o.ID.String() != strconv.Itoa(i)) {
						res.violate(fmt.Sprintf("%s: publication %d got ID %q (same pointer: %v), want %d on a copy", name, i, o.ID.String(), o == m, i), "publish:id", nil)
					}
					if strings.TrimPrefix(o.String(), "id: "+o.ID.String()+"\n") != strings.TrimPrefix(before, "id: fixed\n") {
						res.violate(fmt.Sprintf("%s: the stored copy's payload differs from the caller's: %q vs %q", name, o.String(), before), "publish:copy", nil)
					}
				}
				res.eval(1)
				res.nontrivial(name)
				if m.String() != before || (auto && m.ID.IsSet()) {
					res.violate(fmt.Sprintf("%s: Put modified the caller's message: %q -> %q", name, before, m.String()), "publish:mutated", nil)
				}
				// appending to a returned publication and to the caller's message must not interfere
				if o, err := rep.Put(m, []string{sse.DefaultTopic}); err == nil && o != nil && auto {
					o.AppendData("on-the-copy")
					m.AppendData("on-the-caller")
					if !strings.Contains(o.String(), "on-the-copy") || strings.Contains(o.String(), "on-the-caller") || strings.Contains(m.String(), "on-the-copy") {
						res.violate(fmt.Sprintf("%s: the publication returned by Put and the caller's message share state: copy %q, caller %q", name, o.String(), m.String()), "publish:aliased", nil)
					}
				}
				// appending to the caller's message afterwards must not change what was stored
				m.AppendData("later")
				w := &recWriter{}
				lid := sse.ID("0")
				if !auto {
					lid = sse.EventID{}
				}
				_ = rep.Replay(sse.Subscription{Client: w, LastEventID: lid, Topics: []string{sse.DefaultTopic}})
				for _, s := range w.sent {
					if auto && strings.Contains(s.String(), "later") {
						res.violate(fmt.Sprintf("%s: appending to the caller's message changed a stored copy: %q", name, s.String()), "publish:aliased", nil)
					}
				}
			}
		}
	}
	// every publication keeps its identity: what Put returned earlier is not touched by later Puts (also once the ring wraps)
	for _, kind := range []string{"finite", "valid"} {
		for _, capN := range []int{2, 3, 4} {
			name := fmt.Sprintf("%s/auto/cap=%d/identity", kind, capN)
			var rep sse.Replayer
			if kind == "finite" {
				rep, _ = sse.NewFiniteReplayer(capN, true)
			} else {
				rep, _ = sse.NewValidReplayer(time.Hour, true)
			}
			m := &sse.Message{}
			m.AppendData("same")
			var pubs []*sse.Message
			var encs []string
			for i := 0; i < 3*capN+2; i++ {
				o, err := rep.Put(m, []string{sse.DefaultTopic})
				if err != nil || o == nil {
					res.violate(fmt.Sprintf("%s: Put %d failed: %v", name, i, err), "publish:put", nil)
					break
				}
				pubs = append(pubs, o)
				encs = append(encs, o.String())
			}
			res.eval(1)
			res.nontrivial(name)
			seen := map[*sse.Message]int{}
			for i, o := range pubs {
				if j, dup := seen[o]; dup {
					res.violate(fmt.Sprintf("%s: publications %d and %d are the same object", name, j, i), "publish:identity", nil)
					break
				}
				seen[o] = i
				if o.ID.String() != strconv.Itoa(i) || o.String() != encs[i] {
					res.violate(fmt.Sprintf("%s: publication %d changed after later Puts: %q -> %q", name, i, encs[i], o.String()), "publish:identity", nil)
					break
				}
			}
		}
	}
	// ... and the caller's message is never touched, also not when its publication expires and is collected
	for _, auto := range []bool{false, true} {
		name := fmt.Sprintf("valid/auto=%v/expiry", auto)
		now := time.Unix(1_700_000_000, 0)
		vr, _ := sse.NewValidReplayer(time.Second, auto)
		vr.Now = func() time.Time { return now }
		m := &sse.Message{Type: sse.Type("t")}
		m.AppendData("kept by the caller")
		if !auto {
			m.ID = sse.ID("fixed")
		}
		before := m.String()
		other := &sse.Message{}
		other.AppendData("other")
		if !auto {
			other.ID = sse.ID("other")
		}
		steps := []struct {
			adv time.Duration
			msg *sse.Message
			gc  bool
		}{{0, m, false}, {750 * time.Millisecond, m, false}, {500 * time.Millisecond, other, false}, {0, nil, true}, {2 * time.Second, other, true}}
		for i, st := range steps {
			now = now.Add(st.adv)
			if st.msg != nil {
				if _, err := vr.Put(st.msg, []string{sse.DefaultTopic}); err != nil {
					res.violate(fmt.Sprintf("%s: Put %d failed: %v", name, i, err), "publish:put", nil)
				}
			}
			if st.gc {
				vr.GC()
			}
			if m.String() != before {
				res.violate(fmt.Sprintf("%s: after step %d the caller's message changed: %q -> %q", name, i, before, m.String()), "publish:mutated", nil)
				break
			}
		}
		res.eval(1)
		res.nontrivial(name)
	}
	// through Joe
	for n := 2; n <= 5; n++ {
		fr, _ := sse.NewFiniteReplayer(8, true)
		j := &sse.Joe{Replayer: fr}
		rec := &pubRec{}
		ctx, cancel := context.WithCancel(context.Background())
		done := make(chan error, 1)
		go func() { done <- j.Subscribe(ctx, sse.Subscription{Client: rec, Topics: []string{sse.DefaultTopic}}) }()
		m := &sse.Message{}
		if n%2 == 0 {
			m.AppendData("hello")
		} else {
			m.AppendComment("a publication is a publication, whatever it carries: keep-alive") // comment-only
		}
		before := m.String()
		// wait until the subscriber is registered: publish probes until one arrives
		deadline := time.Now().Add(5 * time.Second)
		probe := &sse.Message{}
		probe.AppendComment("probe")
		_ = probe
		for len(rec.snapshot()) == 0 && time.Now().Before(deadline) {
			if err := j.Publish(m, []string{sse.DefaultTopic}); err != nil {
				res.violate(fmt.Sprintf("joe: Publish failed: %v", err), "publish:joe", nil)
				break
			}
		}
		first := len(rec.snapshot())
		for i := 0; i < n; i++ {
			if err := j.Publish(m, []string{sse.DefaultTopic}); err != nil {
				res.violate(fmt.Sprintf("joe: Publish failed: %v", err), "publish:joe", nil)
			}
		}
		ids := rec.snapshot()
		res.eval(1)
		res.nontrivial("joe/" + strconv.Itoa(n))
		if m.String() != before || m.ID.IsSet() {
			res.violate(fmt.Sprintf("joe: Publish modified the caller's message: %q -> %q", before, m.String()), "publish:mutated", nil)
		}
		if len(ids) != first+n {
			res.violate(fmt.Sprintf("joe: %d deliveries, want %d", len(ids), first+n), "publish:joe", nil)
		}
		for k := 1; k < len(ids); k++ {
			a, _ := strconv.Atoi(ids[k-1])
			b, _ := strconv.Atoi(ids[k])
			if b != a+1 {
				res.violate(fmt.Sprintf("joe: delivered IDs %v are not consecutive", ids), "publish:id", nil)
				break
			}
		}
		cancel()
		<-done
		sctx, c2 := context.WithTimeout(context.Background(), 5*time.Second)
		_ = j.Shutdown(sctx)
		c2()
	}
	res.sample(map[string]any{"kinds": []string{"finite", "valid"}, "modes": []string{"auto", "manual"}, "publications": "1..6", "through_joe": "2..5 publications"})
	res.write(*out)
}

func init() {
	commands["fields-extra"] = cmdFieldsExtra
	commands["publish-same"] = cmdPublishSame
}

// ---- DefaultValidator / NoopValidator against Validator.tla's table ----

func cmdValidator(args []string) {
	fs := flag.NewFlagSet("validator", flag.ExitOnError)
	in := fs.String("in", "", "table exported by Validator.tla")
	out := fs.String("out", "", "result file")
	fs.Parse(args)
	res := newResult()
	eachLine(*in, 1, func(line []byte, _ int) {
		var tb struct {
			Cases []struct {
				Status    int    `json:"status"`
				CT        string `json:"ct"`
				DefaultOK bool   `json:"default_ok"`
				NoopOK    bool   `json:"noop_ok"`
			} `json:"cases"`
		}
		if err := json.Unmarshal(line, &tb); err != nil {
			fatal("bad table: %v", err)
		}
		for _, c := range tb.Cases {
			r := &http.Response{StatusCode: c.Status, Header: http.Header{}}
			if c.CT != "<absent>" {
				r.Header.Set("Content-Type", c.CT)
			}
			res.eval(2)
			res.nontrivial(fmt.Sprintf("%d/%s", c.Status, c.CT))
			det := map[string]any{"driver": "validator", "case": c}
			if err := sse.DefaultValidator(r); (err == nil) != c.DefaultOK {
				res.violate(fmt.Sprintf("DefaultValidator(status %d, Content-Type %q) = %v, spec: accepted=%v", c.Status, c.CT, err, c.DefaultOK), "validator:default", det)
			}
			if err := sse.NoopValidator(r); (err == nil) != c.NoopOK {
				res.violate(fmt.Sprintf("NoopValidator(status %d, Content-Type %q) = %v, spec: accepted=%v", c.Status, c.CT, err, c.NoopOK), "validator:noop", det)
			}
			// a Client without a validator applies the default one
			var got error
			cl := &sse.Client{HTTPClient: &http.Client{Transport: rtFunc(func(q *http.Request) (*http.Response, error) {
				r2 := &http.Response{StatusCode: c.Status, Header: r.Header.Clone(), Body: io.NopCloser(strings.NewReader("")), Request: q}
				return r2, nil
			})}, Backoff: sse.Backoff{MaxRetries: -1}}
			q, _ := http.NewRequest(http.MethodGet, "http://verif.invalid/", http.NoBody)
			got = cl.NewConnection(q).Connect()
			rejected := got != nil && strings.Contains(got.Error(), "response validation failed")
			if rejected == c.DefaultOK {
				res.violate(fmt.Sprintf("a Client without ResponseValidator on (status %d, Content-Type %q): Connect returned %v, spec: accepted=%v", c.Status, c.CT, got, c.DefaultOK), "validator:client", det)
			}
		}
		res.Behaviours = len(tb.Cases)
	})
	res.write(*out)
}

func init() { commands["validator"] = cmdValidator }
