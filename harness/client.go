package main

import (
	"context"
	"encoding/json"
	"errors"
	"flag"
	"fmt"
	"io"
	"net/http"
	"runtime"
	"strings"
	"sync"
	"time"

	sse "github.com/tmaxmax/go-sse"
)

// ---- behaviours exported by Client.tla ----

type clCfg struct {
	MaxRetries  int    `json:"maxRetries"`
	Initial     int    `json:"initial"`
	MulNum      int    `json:"mulNum"`
	MulDen      int    `json:"mulDen"`
	MaxInterval int    `json:"maxInterval"`
	Jitter      string `json:"jitter"`
	Body        string `json:"body"`
}

type clResult struct {
	Kind string `json:"kind"`
	Err  string `json:"err"`
}

type clStep struct {
	O    string   `json:"o"`
	Body []string `json:"body"`
	End  string   `json:"end"`
}

type clReq struct {
	Hdr     []json.RawMessage `json:"hdr"`
	GetBody int               `json:"getBody"`
}

type clWait struct {
	Err  string `json:"err"`
	Base int    `json:"base"`
}

type clBeh struct {
	Cfg         clCfg      `json:"cfg"`
	Script      []clStep   `json:"script"`
	Reqs        []clReq    `json:"reqs"`
	Events      []stEvent  `json:"events"`
	Waits       []clWait   `json:"waits"`
	Result      clResult   `json:"result"`
	Results     []clResult `json:"results"` // what earlier Connect calls on the same Connection returned ("reconnect" steps)
	Attempts    int        `json:"attempts"`
	MaxAttempts int        `json:"maxAttempts"`
}

const (
	clUnit    = time.Nanosecond
	clHuge    = 2000000000
	clPayload = "request-payload"
)

var (
	errDial        = errors.New("dial failed")
	errReject      = errors.New("response rejected")
	errGetBody     = errors.New("GetBody failed")
	errWrapEOF     = fmt.Errorf("transport wrapper: %w", io.EOF)
	errClientCause = errors.New("the caller's own reason for cancelling")
)

// tempReject is a validator verdict that calls itself temporary: still a verdict (C11: "returns at once without retrying when the response validator fails")
type tempReject struct{}

func (tempReject) Error() string   { return "response rejected for now" }
func (tempReject) Temporary() bool { return true }
func (tempReject) Timeout() bool   { return true }

type clSeen struct {
	hdrPresent bool
	hdrValue   string
	nvalues    int
	body       string
	hadBody    bool
}

type clObs struct {
	seen          []clSeen
	evs           []ev
	waits         []time.Duration
	waitErrs      []error
	getBody       int
	err           error
	earlier       []error // results of earlier Connect calls on the same Connection
	panicked      any
	rejectedReads int
}

// hdrWant decodes the spec's header expectation.
func hdrWant(t *byteTable, r clReq) (present bool, value string) {
	var kind string
	if len(r.Hdr) == 0 || json.Unmarshal(r.Hdr[0], &kind) != nil {
		fatal("bad hdr %v", r.Hdr)
	}
	if kind == "absent" {
		return false, ""
	}
	var toks []string
	if err := json.Unmarshal(r.Hdr[1], &toks); err != nil {
		fatal("bad hdr tokens: %v", err)
	}
	return true, t.expand(toks)
}

func runClient(t *byteTable, b *clBeh, seg func(n int) []int) (o clObs) {
	defer func() {
		if r := recover(); r != nil {
			o.panicked = r
		}
	}()
	// the request's context carries a cause of its own: Connect reports the context's error, not the cause
	// ... and a deadline far away: that there is one changes nothing while it is not reached
	dctx, dcancel := context.WithDeadline(context.Background(), time.Now().Add(time.Hour))
	defer dcancel()
	ctx, cancelCause := context.WithCancelCause(dctx)
	cancel := func() { cancelCause(errClientCause) }
	defer cancel()
	var mu sync.Mutex

	var steps []clStep
	cancelWait := false
	reconnects := 0
	for _, s := range b.Script {
		switch s.O {
		case "cancel_wait":
			cancelWait = true
		case "reconnect":
			reconnects++
		default:
			steps = append(steps, s)
		}
	}

	var body io.Reader
	switch b.Cfg.Body {
	case "nil":
	case "nobody":
		body = http.NoBody
	case "getbody", "failgetbody":
		body = strings.NewReader(clPayload)
	case "nogetbody":
		body = io.NopCloser(strings.NewReader(clPayload))
	}
	req, err := http.NewRequestWithContext(ctx, http.MethodPost, "http://verif.invalid/events", body)
	if err != nil {
		fatal("request: %v", err)
	}
	switch b.Cfg.Body {
	case "getbody":
		// every body handed out is really gone once it was closed (a file, a pipe): closing a fresh one before it is sent loses it
		req.Body = &closingBody{r: strings.NewReader(clPayload)}
		req.GetBody = func() (io.ReadCloser, error) {
			mu.Lock()
			o.getBody++
			mu.Unlock()
			return &closingBody{r: strings.NewReader(clPayload)}, nil
		}
	case "failgetbody":
		req.GetBody = func() (io.ReadCloser, error) { mu.Lock(); o.getBody++; mu.Unlock(); return nil, errGetBody }
	}

	attempt := 0
	rejectNext := false
	rejectTemp := false
	cbCancel := false  // the next dispatched event's callback cancels the context
	rejectedReads := 0 // Read calls on the body of a response the validator rejected
	rt := rtFunc(func(q *http.Request) (*http.Response, error) {
		i := attempt
		attempt++
		cbCancel = false // a connection that dispatched no event cancelled nothing
		s := clSeen{}
		if vs, ok := q.Header["Last-Event-Id"]; ok {
			s.hdrPresent, s.nvalues = true, len(vs)
			if len(vs) > 0 {
				s.hdrValue = vs[0]
			}
		}
		if q.Body != nil && q.Body != http.NoBody {
			bs, _ := io.ReadAll(q.Body)
			s.body, s.hadBody = string(bs), true
		}
		o.seen = append(o.seen, s)
		if i >= len(steps) {
			cancel()
			return nil, ctx.Err()
		}
		st := steps[i]
		switch st.O {
		case "transport":
			return nil, errDial
		case "transport_ctx":
			return nil, fmt.Errorf("transport deadline: %w", context.DeadlineExceeded)
		case "cancel_do":
			cancel()
			return nil, ctx.Err()
		case "reject", "reject_temp", "stream":
			rejectNext = st.O != "stream"
			rejectTemp = st.O == "reject_temp"
			in := t.expand(st.Body)
			rd := &segReader{s: in, cuts: seg(len(in))}
			switch st.End {
			case "clean":
				rd.end = io.EOF
			case "error":
				rd.end = errBoom
			case "errctx":
				rd.end = context.DeadlineExceeded
			case "errwrapeof":
				rd.end = errWrapEOF
			case "erriou":
				rd.end = io.ErrUnexpectedEOF // what net/http reports for a body shorter than announced: a read error, not a clean end
			case "cancel_eof":
				rd.end = io.EOF
				rd.onEnd = cancel
			case "cancel_cb":
				rd.end = io.EOF
				cbCancel = true
			case "cancel":
				rd.end = context.Canceled
				rd.onEnd = cancel
			}
			var body io.Reader = rd
			if st.O != "stream" {
				body = readerFunc(func(p []byte) (int, error) { rejectedReads++; return rd.Read(p) })
			}
			// the scripted validator decides; what it accepts is a stream whatever the status line says
			status := []int{200, 204, 206, 200}[i%4]
			return &http.Response{StatusCode: status, Header: http.Header{"Content-Type": {"text/event-stream"}}, Body: io.NopCloser(body), Request: q}, nil
		}
		fatal("bad step %q", st.O)
		return nil, nil
	})

	bo := sse.Backoff{
		InitialInterval: time.Duration(b.Cfg.Initial) * clUnit,
		Multiplier:      clMul(b.Cfg.MulNum, b.Cfg.MulDen),
		MaxInterval:     time.Duration(b.Cfg.MaxInterval) * clUnit,
		MaxRetries:      b.Cfg.MaxRetries,
	}
	switch b.Cfg.Jitter {
	case "none":
		bo.Jitter = -1
	case "quarter":
		bo.Jitter = 0.25
	}
	c := &sse.Client{
		HTTPClient: &http.Client{Transport: rt},
		ResponseValidator: func(*http.Response) error {
			if rejectNext && rejectTemp {
				return fmt.Errorf("checked the response: %w", tempReject{})
			}
			if rejectNext {
				return errReject
			}
			return nil
		},
		Backoff: bo,
	}
	c.OnRetry = func(err error, d time.Duration) {
		o.waits = append(o.waits, d)
		o.waitErrs = append(o.waitErrs, err)
		// more retries than the specification has at all: a loop that never reaches the transport again must still end
		if (cancelWait && len(o.waits) == len(b.Waits)) || d > time.Minute || len(o.waits) > len(b.Waits)+3 {
			cancel()
		}
	}
	// one Client serves any number of connections: creating one must leave the Client's configuration as it was
	if dummy, derr := http.NewRequest(http.MethodGet, "http://verif.invalid/other", http.NoBody); derr == nil {
		_ = c.NewConnection(dummy)
	}
	cn := c.NewConnection(req)
	cn.SubscribeToAll(func(e sse.Event) {
		o.evs = append(o.evs, ev{e.LastEventID, e.Type, e.Data})
		if cbCancel {
			cbCancel = false
			cancel()
		}
	})
	o.err = cn.Connect()
	for k := 0; k < reconnects && ctx.Err() == nil; k++ {
		// the caller calls Connect again on the same Connection
		o.earlier = append(o.earlier, o.err)
		o.err = cn.Connect()
	}
	o.rejectedReads = rejectedReads
	return
}

func errClassOK(err error, class string) bool {
	switch class {
	case "transport":
		return errors.Is(err, errDial)
	case "transport_ctx", "errctx":
		var ce *sse.ConnectionError
		return errors.As(err, &ce) && errors.Is(err, context.DeadlineExceeded)
	case "wrapeof":
		return errors.Is(err, errWrapEOF)
	case "iou":
		// reported as itself; sse.ErrUnexpectedEOF is for streams that really ended cleanly in mid-line (when the read error strikes
		// in mid-line the two must still be told apart: they are different errors)
		return errors.Is(err, io.ErrUnexpectedEOF) && !errors.Is(err, sse.ErrUnexpectedEOF)
	case "eof":
		return errors.Is(err, io.EOF) && !errors.Is(err, sse.ErrUnexpectedEOF) && !errors.Is(err, errWrapEOF)
	case "unexpected_eof":
		return errors.Is(err, sse.ErrUnexpectedEOF)
	case "boom":
		return errors.Is(err, errBoom)
	}
	return false
}

func jitterRange(j string) (lo, hi float64) {
	switch j {
	case "none":
		return 1, 1
	case "quarter":
		return 0.75, 1.25
	}
	return 0.5, 1.5
}

type clFocus struct{ result, header, body, events, waits bool }

func checkClient(res *Result, t *byteTable, b *clBeh, o clObs, f clFocus, segName string) {
	scriptStr := func() string {
		var sb strings.Builder
		for _, s := range b.Script {
			if s.O == "stream" {
				fmt.Fprintf(&sb, "stream(%s,%s) ", clipBytes(t.expand(s.Body)), s.End)
			} else {
				sb.WriteString(s.O + " ")
			}
		}
		return sb.String()
	}
	fail := func(sig, f string, a ...any) {
		res.violate(fmt.Sprintf(f, a...)+fmt.Sprintf("  [cfg %+v; script: %s; segmentation %s]", b.Cfg, scriptStr(), segName), sig,
			map[string]any{"driver": "client", "behaviour": b, "got_err": fmt.Sprint(o.err), "got_attempts": len(o.seen), "got_events": showEvs(o.evs),
				"got_waits": fmt.Sprint(o.waits), "seen": fmt.Sprintf("%+v", o.seen)})
	}
	if o.panicked != nil {
		fail("client:panic", "Connect panicked: %v", o.panicked)
		return
	}
	cancelWait := len(b.Script) > 0 && b.Script[len(b.Script)-1].O == "cancel_wait"
	if f.result {
		checkOne := func(err error, want clResult, which string, last bool) {
			if err == nil {
				fail("client:result:nil", "%sConnect returned nil (spec: %s %s)", which, want.Kind, want.Err)
				return
			}
			var ce *sse.ConnectionError
			isCE := errors.As(err, &ce)
			ok := false
			switch want.Kind {
			case "ctx":
				ok = errors.Is(err, context.Canceled)
			case "validator":
				ok = isCE && (errors.Is(err, errReject) || errors.As(err, new(tempReject)))
			case "nogetbody":
				ok = errors.Is(err, sse.ErrNoGetBody)
			case "getbodyerr":
				ok = errors.Is(err, errGetBody)
			case "exhausted":
				ok = isCE && errClassOK(err, want.Err)
				if lastEnd := b.Script[len(b.Script)-1].End; !ok && last && (lastEnd == "cancel_eof" || lastEnd == "cancel_cb") {
					ok = errors.Is(err, context.Canceled) // cancelled at the very end: either reason is acceptable
				}
			}
			if !ok {
				fail("client:result:"+want.Kind+":"+want.Err, "%sConnect returned %q, spec: %s %s", which, err, want.Kind, want.Err)
			}
		}
		if len(o.earlier) != len(b.Results) {
			fail("client:result:connects", "%d Connect calls returned before the last one, spec: %d", len(o.earlier), len(b.Results))
		} else {
			for i, e := range o.earlier {
				checkOne(e, b.Results[i], fmt.Sprintf("call %d: ", i+1), false)
			}
		}
		checkOne(o.err, b.Result, "", true)
		if len(o.seen) != b.Attempts && !(cancelWait && len(o.seen) == b.Attempts+1) {
			fail("client:attempts", "%d attempts were made, spec: %d", len(o.seen), b.Attempts)
		}
		// "returns at once ... when the response validator fails": the rejected response's body may be a stream the server
		// keeps open - reading it (to drain it, say) would block Connect for as long
		if o.rejectedReads > 0 {
			fail("client:rejected-body-read", "the body of a response the validator rejected was read (%d Read calls): on a live stream Connect would block instead of returning at once", o.rejectedReads)
		}
	}
	if f.header {
		for i := 0; i < len(b.Reqs) && i < len(o.seen); i++ {
			wp, wv := hdrWant(t, b.Reqs[i])
			s := o.seen[i]
			if s.hdrPresent != wp || (wp && (s.hdrValue != wv || s.nvalues != 1)) {
				fail("client:header", "attempt %d carried Last-Event-ID present=%v %q (%d values), spec: present=%v %q", i+1, s.hdrPresent, s.hdrValue, s.nvalues, wp, wv)
				break
			}
		}
	}
	if f.body {
		want := 0
		for _, r := range b.Reqs {
			want += r.GetBody
		}
		if b.Cfg.Body == "getbody" && o.getBody != want {
			fail("client:getbody", "GetBody was called %d times, spec: %d (once per retry)", o.getBody, want)
		}
		for i, s := range o.seen {
			if b.Cfg.Body == "getbody" || (i == 0 && (b.Cfg.Body == "nogetbody" || b.Cfg.Body == "failgetbody")) {
				if !s.hadBody || s.body != clPayload {
					fail("client:body", "attempt %d was sent body %q (present %v), want the full original %q", i+1, s.body, s.hadBody, clPayload)
					break
				}
			}
			if i > 0 && (b.Cfg.Body == "nogetbody" || b.Cfg.Body == "failgetbody") {
				fail("client:body", "attempt %d was sent although the body cannot be re-obtained", i+1)
				break
			}
		}
	}
	if f.events {
		var w []ev
		for _, e := range b.Events {
			w = append(w, ev{t.expand(e.ID), t.expand(e.Type), t.expand(e.Data)})
		}
		cbc := false
		for _, st := range b.Script {
			cbc = cbc || st.End == "cancel_cb"
		}
		switch {
		case cbc:
			// what is dispatched after a callback cancelled the context is left open: a prefix, at least the cancelling event
			if len(o.evs) > len(w) || !evsEq(o.evs, w[:len(o.evs)]) || (len(w) > 0 && len(o.evs) == 0) {
				fail("client:events", "callbacks saw %s, spec: a non-empty prefix of %s", showEvs(o.evs), showEvs(w))
			}
		case !evsEq(o.evs, w):
			fail("client:events", "callbacks saw %s, spec %s", showEvs(o.evs), showEvs(w))
		}
	}
	if f.waits {
		if len(o.waits) != len(b.Waits) && !(cancelWait && len(o.waits) == len(b.Waits)+1) {
			fail("client:waits:count", "OnRetry was called %d times, spec: %d", len(o.waits), len(b.Waits))
		} else {
			lo, hi := jitterRange(b.Cfg.Jitter)
			for i, w := range b.Waits {
				if !errClassOK(o.waitErrs[i], w.Err) {
					fail("client:waits:err", "OnRetry %d got error %q, spec: %s", i+1, o.waitErrs[i], w.Err)
					break
				}
				got := o.waits[i]
				if w.Base >= clHuge {
					if float64(got) < lo*float64(clHuge)*float64(clUnit) {
						fail("client:waits:value", "wait %d is %v after a huge server retry value", i+1, got)
					}
					continue
				}
				base := time.Duration(w.Base) * clUnit
				min := time.Duration(lo*float64(base)) - 1
				max := time.Duration(hi*float64(base)) + 1
				if got < min || got > max {
					fail("client:waits:value:"+b.Cfg.Jitter, "wait %d is %v, spec: base %v (jitter %s => [%v, %v])", i+1, got, base, b.Cfg.Jitter, min, max)
					break
				}
			}
		}
	}
}

func cmdClient(args []string) {
	fs := flag.NewFlagSet("client", flag.ExitOnError)
	in := fs.String("in", "", "ndjson behaviours exported by Client.tla")
	out := fs.String("out", "", "result file")
	table := fs.String("table", "", "token table")
	focus := fs.String("focus", "result,header,body,events,waits", "which observables to compare")
	segs := fs.String("segs", "whole", "comma list: whole,bytewise,mid")
	fs.Parse(args)
	t := loadTable(*table)
	res := newResult()
	var f clFocus
	for _, k := range strings.Split(*focus, ",") {
		switch k {
		case "result":
			f.result = true
		case "header":
			f.header = true
		case "body":
			f.body = true
		case "events":
			f.events = true
		case "waits":
			f.waits = true
		}
	}
	segNames := strings.Split(*segs, ",")
	n := eachLine(*in, runtime.NumCPU()*2, func(line []byte, idx int) {
		var b clBeh
		if err := json.Unmarshal(line, &b); err != nil {
			fatal("bad behaviour line %d: %v", idx, err)
		}
		for _, sn := range segNames {
			seg := func(n int) []int { return nil }
			switch sn {
			case "bytewise":
				seg = func(n int) []int {
					var cs []int
					for i := 1; i < n; i++ {
						cs = append(cs, i)
					}
					return cs
				}
			case "mid":
				seg = func(n int) []int {
					if n < 2 {
						return nil
					}
					return []int{n / 2, n - 1}
				}
			}
			o := runClient(t, &b, seg)
			res.eval(1)
			checkClient(res, t, &b, o, f, sn)
		}
		if len(b.Script) > 1 || len(b.Events) > 0 {
			var sb strings.Builder
			fmt.Fprintf(&sb, "%+v|", b.Cfg)
			for _, s := range b.Script {
				fmt.Fprintf(&sb, "%s:%s:%s;", s.O, strings.Join(s.Body, " "), s.End)
			}
			res.nontrivial(sb.String())
		}
		if idx%1201 == 0 {
			res.sample(map[string]any{"cfg": b.Cfg, "script": b.Script, "expected_result": b.Result, "expected_waits": b.Waits, "expected_requests": len(b.Reqs)})
		}
	})
	res.Behaviours = n
	res.write(*out)
}

func init() {
	commands["client"] = cmdClient
}

// cmdClientElapsed: C12's MaxElapsedTime clause. It depends on real time, so only sound necessary
// conditions are asserted: timers never fire early, hence when retry k is granted the time elapsed in
// the series is at least the sum of the previous waits, and the code must have found
// elapsed + wait_k <= MaxElapsedTime; so sum_{i<=k} wait_i <= MaxElapsedTime for every granted retry.
func cmdClientElapsed(args []string) {
	fs := flag.NewFlagSet("client-elapsed", flag.ExitOnError)
	out := fs.String("out", "", "result file")
	fs.Parse(args)
	res := newResult()
	type sc struct {
		name                string
		bo                  sse.Backoff
		minRetries, maxSeen int
		attemptTakes        time.Duration // every attempt takes this long to fail (a dial / handshake timeout)
	}
	scs := []sc{
		{"ample budget: all retries happen", sse.Backoff{InitialInterval: 100 * time.Microsecond, Multiplier: 1, Jitter: -1, MaxRetries: 3, MaxElapsedTime: 10 * time.Second}, 3, 3, 0},
		{"40ms x2 within 50ms: the second retry must not start", sse.Backoff{InitialInterval: 40 * time.Millisecond, Multiplier: 2, Jitter: -1, MaxElapsedTime: 50 * time.Millisecond}, 0, 1, 0},
		{"5ms x1 within 22ms", sse.Backoff{InitialInterval: 5 * time.Millisecond, Multiplier: 1, Jitter: -1, MaxElapsedTime: 22 * time.Millisecond}, 0, 4, 0},
		{"5ms x1.5 jittered within 30ms", sse.Backoff{InitialInterval: 5 * time.Millisecond, Multiplier: 1.5, Jitter: 0.25, MaxElapsedTime: 30 * time.Millisecond}, 0, 6, 0},
		{"no limit: MaxRetries alone decides", sse.Backoff{InitialInterval: 200 * time.Microsecond, Multiplier: 1, Jitter: -1, MaxRetries: 5}, 5, 5, 0},
		// the time spent inside failing attempts counts: 20 ms per attempt + 5 ms waits within 60 ms leave room for 2 retries
		{"slow failing attempts: 20ms each, 5ms x1 within 60ms", sse.Backoff{InitialInterval: 5 * time.Millisecond, Multiplier: 1, Jitter: -1, MaxElapsedTime: 60 * time.Millisecond}, 0, 3, 20 * time.Millisecond},
	}
	for rep := 0; rep < 3; rep++ {
		for _, s := range scs {
			var waits []time.Duration
			var late []string
			attempts := 0
			t0 := time.Now()
			c := &sse.Client{
				HTTPClient: &http.Client{Transport: rtFunc(func(*http.Request) (*http.Response, error) {
					attempts++
					time.Sleep(s.attemptTakes)
					return nil, errDial
				})},
				ResponseValidator: sse.NoopValidator,
				Backoff:           s.bo,
				OnRetry: func(_ error, d time.Duration) {
					waits = append(waits, d)
					// "no retry starts once MaxElapsedTime would be exceeded": the series began after t0, so its elapsed time is at most ours
					// (15 ms of slack for the time between the library's own reading of the clock and this callback)
					if el := time.Since(t0); s.bo.MaxElapsedTime > 0 && el+d > s.bo.MaxElapsedTime+15*time.Millisecond {
						late = append(late, fmt.Sprintf("retry %d granted %v into the series with a wait of %v", len(waits), el, d))
					}
				},
			}
			ctx, cancel := context.WithTimeout(context.Background(), 5*time.Second)
			q, _ := http.NewRequestWithContext(ctx, http.MethodGet, "http://verif.invalid/", http.NoBody)
			err := c.NewConnection(q).Connect()
			cancel()
			res.eval(1)
			res.nontrivial(s.name)
			d := map[string]any{"scenario": s.name, "backoff": fmt.Sprintf("%+v", s.bo), "waits": fmt.Sprint(waits), "attempts": attempts, "err": fmt.Sprint(err)}
			if err == nil || errors.Is(err, context.DeadlineExceeded) {
				res.violate(fmt.Sprintf("%s: Connect returned %v after %d attempts (retries did not stop)", s.name, err, attempts), "client:elapsed:unbounded", d)
				continue
			}
			if len(waits) > s.maxSeen {
				res.violate(fmt.Sprintf("%s: %d retries were made, at most %d fit MaxElapsedTime/MaxRetries", s.name, len(waits), s.maxSeen), "client:elapsed:exceeded", d)
			}
			if len(late) > 0 && len(waits) > s.maxSeen {
				res.violate(fmt.Sprintf("%s: %s: beyond MaxElapsedTime %v", s.name, late[0], s.bo.MaxElapsedTime), "client:elapsed:late", d)
			}
			if len(waits) < s.minRetries {
				res.violate(fmt.Sprintf("%s: only %d retries were made, at least %d fit", s.name, len(waits), s.minRetries), "client:elapsed:too-few", d)
			}
			if s.bo.MaxElapsedTime > 0 {
				var sum time.Duration
				for k, w := range waits {
					sum += w
					if sum > s.bo.MaxElapsedTime {
						res.violate(fmt.Sprintf("%s: retry %d was granted although the waits so far (%v) exceed MaxElapsedTime %v", s.name, k+1, sum, s.bo.MaxElapsedTime), "client:elapsed:exceeded", d)
						break
					}
				}
			}
			if rep == 0 {
				res.sample(d)
			}
		}
	}
	res.write(*out)
}

func init() {
	commands["client-elapsed"] = cmdClientElapsed
}

// clMul: a numerator of 2*10^9 stands for a multiplier beyond anything an interval can be multiplied by (10^13)
func clMul(num, den int) float64 {
	if num >= clHuge {
		return 1e13
	}
	return float64(num) / float64(den)
}

// closingBody is a request body that cannot be read any more once it was closed
type closingBody struct {
	r      io.Reader
	closed bool
}

func (b *closingBody) Read(p []byte) (int, error) {
	if b.closed {
		return 0, errors.New("read on closed request body")
	}
	return b.r.Read(p)
}

func (b *closingBody) Close() error { b.closed = true; return nil }

type readerFunc func(p []byte) (int, error)

func (f readerFunc) Read(p []byte) (int, error) { return f(p) }
