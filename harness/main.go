// Command vdriver is the Go side of the conformance binding: it replays behaviours exported by TLC
// against the real go-sse code (direction A) and records traces of the real code for validation by
// TLC (direction B).  It is rebuilt from /repo's working tree on every check.
package main

import (
	"bufio"
	"encoding/json"
	"fmt"
	"os"
	"sort"
	"strconv"
	"sync"
)

type Violation struct {
	What      string `json:"what"`
	Signature string `json:"signature"`
	Detail    any    `json:"detail"`
}

// Result is what every sub-command writes to its -out file.
type Result struct {
	mu          sync.Mutex
	Evaluations int            `json:"evaluations"`
	Distinct    int            `json:"distinct_nontrivial"`
	Behaviours  int            `json:"behaviours"`
	Samples     []any          `json:"samples"`
	Violations  []Violation    `json:"violations"`
	NViolations int            `json:"n_violations"`
	Drift       []any          `json:"drift"`
	Notes       map[string]any `json:"notes"`
	sigs        map[string]int
	distinct    map[string]struct{}
}

func newResult() *Result {
	return &Result{Notes: map[string]any{}, sigs: map[string]int{}, distinct: map[string]struct{}{}, Samples: []any{}, Violations: []Violation{}, Drift: []any{}}
}

func (r *Result) violate(what, sig string, detail any) {
	r.mu.Lock()
	defer r.mu.Unlock()
	r.NViolations++
	r.sigs[sig]++
	if r.sigs[sig] <= 3 && len(r.Violations) < 60 {
		r.Violations = append(r.Violations, Violation{what, sig, detail})
	}
}

func (r *Result) drift(d any) {
	r.mu.Lock()
	defer r.mu.Unlock()
	if len(r.Drift) < 10 {
		r.Drift = append(r.Drift, d)
	}
}

func (r *Result) sample(s any) {
	r.mu.Lock()
	defer r.mu.Unlock()
	if len(r.Samples) < 4 {
		r.Samples = append(r.Samples, s)
	}
}

func (r *Result) eval(n int) {
	r.mu.Lock()
	r.Evaluations += n
	r.mu.Unlock()
}

// nontrivial registers a distinct non-trivial case by its key.
func (r *Result) nontrivial(key string) {
	r.mu.Lock()
	r.distinct[key] = struct{}{}
	r.mu.Unlock()
}

func (r *Result) note(k string, v any) {
	r.mu.Lock()
	r.Notes[k] = v
	r.mu.Unlock()
}

func (r *Result) addNote(k string, n int) {
	r.mu.Lock()
	c, _ := r.Notes[k].(int)
	r.Notes[k] = c + n
	r.mu.Unlock()
}

func (r *Result) write(path string) {
	r.Distinct = len(r.distinct)
	r.Notes["violation_signatures"] = r.sigs
	b, err := json.MarshalIndent(r, "", " ")
	if err != nil {
		fatal("marshal result: %v", err)
	}
	if err := os.WriteFile(path, b, 0o644); err != nil {
		fatal("write result: %v", err)
	}
}

func fatal(f string, a ...any) {
	fmt.Fprintf(os.Stderr, "vdriver: "+f+"\n", a...)
	os.Exit(2)
}

// eachLine calls fn for every line of an ndjson file, in parallel on `par` workers.
func eachLine(path string, par int, fn func(line []byte, idx int)) int {
	f, err := os.Open(path)
	if err != nil {
		fatal("open %s: %v", path, err)
	}
	defer f.Close()
	sc := bufio.NewScanner(f)
	sc.Buffer(make([]byte, 1<<20), 1<<28)
	type job struct {
		b []byte
		i int
	}
	ch := make(chan job, 256)
	var wg sync.WaitGroup
	for w := 0; w < par; w++ {
		wg.Add(1)
		go func() {
			defer wg.Done()
			for j := range ch {
				fn(j.b, j.i)
			}
		}()
	}
	n := 0
	for sc.Scan() {
		b := append([]byte(nil), sc.Bytes()...)
		ch <- job{b, n}
		n++
	}
	close(ch)
	wg.Wait()
	if err := sc.Err(); err != nil {
		fatal("scan %s: %v", path, err)
	}
	return n
}

func envSeed() int64 {
	s, _ := strconv.ParseInt(os.Getenv("VERIF_SEED"), 10, 64)
	return s
}

func sortedKeys[V any](m map[string]V) []string {
	ks := make([]string, 0, len(m))
	for k := range m {
		ks = append(ks, k)
	}
	sort.Strings(ks)
	return ks
}

var commands = map[string]func(args []string){}

func main() {
	if len(os.Args) < 2 {
		fatal("usage: vdriver <command> [flags]; commands: %v", sortedKeys(commands))
	}
	cmd, ok := commands[os.Args[1]]
	if !ok {
		fatal("unknown command %q; commands: %v", os.Args[1], sortedKeys(commands))
	}
	cmd(os.Args[2:])
}
