package main

import (
	"bytes"
	"encoding/json"
	"errors"
	"flag"
	"fmt"
	"io"
	"math"
	"net/http"
	"net/http/httptest"
	"os"
	"runtime"
	"sort"
	"strings"
	"sync"
	"time"

	sse "github.com/tmaxmax/go-sse"
)

// ---- behaviours exported by Message.tla ----

type msField struct {
	Set bool     `json:"set"`
	V   []string `json:"v"`
}

type msChunk struct {
	C  []string `json:"c"`
	Cm bool     `json:"cm"`
}

type msOp struct {
	Op    string   `json:"op"`
	I     int      `json:"i"`
	S     []string `json:"s"`
	Route string   `json:"route"`
	J     int      `json:"j"`
	Err   bool     `json:"err"`
	Panic bool     `json:"panic"`
}

type msUnm struct {
	OK bool `json:"ok"`
	M  struct {
		ID          msField   `json:"id"`
		Type        msField   `json:"type"`
		RetryDigits []string  `json:"retryDigits"`
		Val         []msChunk `json:"val"`
	} `json:"m"`
	Why string `json:"why"`
}

type msMsg struct {
	ID        msField   `json:"id"`
	Type      msField   `json:"type"`
	Retry     string    `json:"retry"`
	Chunks    []msChunk `json:"chunks"`
	Wire      []string  `json:"wire"`
	Unmarshal msUnm     `json:"unmarshal"`
}

type msBeh struct {
	Ops    []msOp    `json:"ops"`
	Msgs   []msMsg   `json:"msgs"`
	Whatwg []stEvent `json:"whatwg"`
	Read   []stEvent `json:"read"`
}

func retryOf(class string) time.Duration {
	switch class {
	case "neg":
		return -5 * time.Millisecond
	case "zero":
		return 0
	case "subms":
		return 999 * time.Microsecond
	case "ms1":
		return time.Millisecond
	case "ms999":
		return 999 * time.Millisecond
	case "s1":
		return time.Second
	case "max":
		return time.Duration(math.MaxInt64)
	}
	fatal("unknown retry class %q", class)
	return 0
}

// ---- tokeniser: bytes -> tokens of Bytes.tla's table (longest match) ----

type tokeniser struct {
	byFirst map[byte][]string // candidate tokens by first byte, longest expansion first
	t       *byteTable
}

func newTokeniser(t *byteTable, only ...string) *tokeniser {
	tk := &tokeniser{byFirst: map[byte][]string{}, t: t}
	allowed := map[string]bool{}
	for _, o := range only {
		allowed[o] = true
	}
	for name := range t.Exp {
		if len(only) > 0 && !allowed[name] {
			continue
		}
		s := t.str[name]
		tk.byFirst[s[0]] = append(tk.byFirst[s[0]], name)
	}
	for _, l := range tk.byFirst {
		sort.Slice(l, func(i, j int) bool {
			if len(t.str[l[i]]) != len(t.str[l[j]]) {
				return len(t.str[l[i]]) > len(t.str[l[j]])
			}
			return l[i] < l[j]
		})
	}
	return tk
}

func (tk *tokeniser) tokens(s string) ([]string, bool) {
	out := []string{}
	for len(s) > 0 {
		found := false
		for _, name := range tk.byFirst[s[0]] {
			if strings.HasPrefix(s, tk.t.str[name]) {
				out = append(out, name)
				s = s[len(tk.t.str[name]):]
				found = true
				break
			}
		}
		if !found {
			return out, false
		}
	}
	return out, true
}

// ---- applying the operations to real messages ----

type applied struct {
	msgs     []*sse.Message
	problems []string
}

func setField(route string, str string, isID bool, m *sse.Message) (err error, panicked bool) {
	defer func() {
		if r := recover(); r != nil {
			panicked = true
		}
	}()
	var id sse.EventID
	var ty sse.EventType
	if route != "new" && route != "must" && route != "header" {
		// the decoders work on a receiver that already holds a value: a rejected input must leave it unset
		id, ty = sse.ID("y"), sse.Type("y")
	}
	switch route {
	case "new":
		if isID {
			id, err = sse.NewID(str)
		} else {
			ty, err = sse.NewType(str)
		}
	case "must":
		if isID {
			id = sse.ID(str)
		} else {
			ty = sse.Type(str)
		}
	case "text":
		// the decoders own what they keep: the caller's buffer is reused afterwards (a read buffer, sql.RawBytes)
		buf := []byte(str)
		defer scribble(buf)
		if isID {
			err = id.UnmarshalText(buf)
		} else {
			err = ty.UnmarshalText(buf)
		}
	case "json":
		doc, _ := json.Marshal(str)
		defer scribble(doc)
		if isID {
			err = id.UnmarshalJSON(doc)
		} else {
			err = ty.UnmarshalJSON(doc)
		}
	case "scan_s":
		if isID {
			err = id.Scan(str)
		} else {
			err = ty.Scan(str)
		}
	case "scan_b":
		buf := []byte(str)
		defer scribble(buf)
		if isID {
			err = id.Scan(buf)
		} else {
			err = ty.Scan(buf)
		}
	case "header":
		r := httptest.NewRequest(http.MethodGet, "http://verif.invalid/", http.NoBody)
		r.Header["Last-Event-Id"] = []string{str}
		sess, uerr := sse.Upgrade(httptest.NewRecorder(), r)
		if uerr != nil {
			fatal("Upgrade: %v", uerr)
		}
		id = sess.LastEventID
	default:
		fatal("unknown route %q", route)
	}
	if isID {
		m.ID = id
	} else {
		m.Type = ty
	}
	return
}

func scribble(b []byte) {
	for i := range b {
		b[i] = '\n'
	}
}

func applyOps(t *byteTable, b *msBeh) *applied {
	a := &applied{}
	skip := false
	for k, op := range b.Ops {
		if skip { // already applied together with the previous operation
			skip = false
			continue
		}
		str := t.expand(op.S)
		switch op.Op {
		case "new":
			a.msgs = append(a.msgs, &sse.Message{})
		case "data":
			// AppendData(a, b) is AppendData(a) followed by AppendData(b): every other such pair goes in one call
			if k+1 < len(b.Ops) && b.Ops[k+1].Op == "data" && b.Ops[k+1].I == op.I && (k+len(b.Ops))%2 == 0 {
				a.msgs[op.I-1].AppendData(str, t.expand(b.Ops[k+1].S))
				skip = true
				break
			}
			a.msgs[op.I-1].AppendData(str)
		case "comment":
			a.msgs[op.I-1].AppendComment(str)
		case "id", "type":
			err, pn := setField(op.Route, str, op.Op == "id", a.msgs[op.I-1])
			if (err != nil) != op.Err || pn != op.Panic {
				a.problems = append(a.problems, fmt.Sprintf("op %d: %s via %s(%q): error %v panic %v, spec: error %v panic %v", k+1, op.Op, op.Route, str, err, pn, op.Err, op.Panic))
			}
		case "retry":
			a.msgs[op.I-1].Retry = retryOf(op.Route)
		case "clone":
			a.msgs = append(a.msgs, a.msgs[op.J-1].Clone())
		case "refill":
			if err := a.msgs[op.I-1].UnmarshalText([]byte(str)); (err != nil) != op.Err {
				a.problems = append(a.problems, fmt.Sprintf("op %d: UnmarshalText(%q) on an existing message: error %v, spec: error %v", k+1, str, err, op.Err))
			}
		case "fromtext":
			m := &sse.Message{}
			m.AppendData("left over from before") // UnmarshalText must overwrite previous fields
			buf := []byte(str)
			err := m.UnmarshalText(buf)
			// the decoded message owns its values: reusing the input buffer must not change it
			enc := m.String()
			for i := range buf {
				buf[i] = '\n'
			}
			if m.String() != enc {
				a.problems = append(a.problems, fmt.Sprintf("op %d: the message decoded by UnmarshalText(%q) changed when the caller reused its buffer: %q -> %q", k+1, str, enc, m.String()))
			}
			if (err != nil) != op.Err {
				a.problems = append(a.problems, fmt.Sprintf("op %d: UnmarshalText(%q): error %v, spec: error %v", k+1, str, err, op.Err))
			}
			var ue *sse.UnmarshalError
			if err != nil && !errors.As(err, &ue) {
				a.problems = append(a.problems, fmt.Sprintf("op %d: UnmarshalText(%q): error %v is not an *UnmarshalError", k+1, str, err))
			}
			a.msgs = append(a.msgs, m)
		default:
			fatal("unknown op %q", op.Op)
		}
		// encoders are asked at any time, also between two changes of a message: what they say later is about the message as it is then
		if op.I >= 1 && op.I <= len(a.msgs) && (k+len(b.Ops))%2 == 0 {
			_, _ = a.msgs[op.I-1].MarshalText()
			_ = a.msgs[op.I-1].String()
		}
	}
	return a
}

// ---- fault-injecting writer ----

type wcall struct {
	Len int  `json:"len"`
	Acc int  `json:"acc"`
	Err bool `json:"err"`
}

type faultWriter struct {
	failAt int // 1-based index of the Write that fails; 0 = never
	accept func(n int) int
	calls  []wcall
	got    bytes.Buffer
	after  int
	failed bool
}

func (w *faultWriter) Write(p []byte) (int, error) {
	if w.failed {
		w.after++
	}
	if w.failAt == len(w.calls)+1 {
		a := w.accept(len(p))
		w.got.Write(p[:a])
		w.calls = append(w.calls, wcall{len(p), a, true})
		w.failed = true
		return a, errBoom
	}
	w.got.Write(p)
	w.calls = append(w.calls, wcall{len(p), len(p), false})
	return len(p), nil
}

// richWriter is the same destination offering the optional interfaces an encoder may prefer (io.ByteWriter,
// io.StringWriter): whatever route the bytes take, the count WriteTo returns is what the destination accepted.
type richWriter struct{ *faultWriter }

func (w richWriter) WriteByte(c byte) error {
	fw := w.faultWriter
	if fw.failed {
		fw.after++
	}
	if fw.failAt == len(fw.calls)+1 {
		fw.calls = append(fw.calls, wcall{1, 0, true}) // a failed WriteByte has not written its byte
		fw.failed = true
		return errBoom
	}
	fw.got.WriteByte(c)
	fw.calls = append(fw.calls, wcall{1, 1, false})
	return nil
}

func (w richWriter) WriteString(s string) (int, error) { return w.faultWriter.Write([]byte(s)) }

type msCases struct {
	mu sync.Mutex
	f  *os.File
	n  int
}

func (c *msCases) add(v any) {
	if c == nil || c.f == nil {
		return
	}
	b, err := json.Marshal(v)
	if err != nil {
		fatal("marshal case: %v", err)
	}
	c.mu.Lock()
	c.f.Write(append(b, '\n'))
	c.n++
	c.mu.Unlock()
}

func fieldEq(t *byteTable, f msField, set bool, val string) bool {
	if f.Set != set {
		return false
	}
	return !set || t.expand(f.V) == val
}

func cmdMessage(args []string) {
	fs := flag.NewFlagSet("message", flag.ExitOnError)
	in := fs.String("in", "", "ndjson behaviours exported by Message.tla")
	out := fs.String("out", "", "result file")
	table := fs.String("table", "", "token table")
	casesPath := fs.String("cases", "", "write cases for MessageTrace.tla here")
	every := fs.Int("every", 1, "emit trace cases for every n-th behaviour")
	faults := fs.Bool("faults", true, "run WriteTo against fault-injecting writers")
	fs.Parse(args)
	t := loadTable(*table)
	tk := newTokeniser(t)
	res := newResult()
	var cases *msCases
	if *casesPath != "" {
		f, err := os.Create(*casesPath)
		if err != nil {
			fatal("cases: %v", err)
		}
		defer f.Close()
		cases = &msCases{f: f}
	}
	n := eachLine(*in, runtime.NumCPU(), func(line []byte, idx int) {
		var b msBeh
		if err := json.Unmarshal(line, &b); err != nil {
			fatal("bad behaviour line %d: %v", idx, err)
		}
		a := applyOps(t, &b)
		res.eval(1)
		det := func(extra map[string]any) map[string]any {
			d := map[string]any{"driver": "message", "behaviour": b}
			for k, v := range extra {
				d[k] = v
			}
			return d
		}
		opsStr := func() string {
			var sb strings.Builder
			for _, op := range b.Ops {
				fmt.Fprintf(&sb, "%s(%d", op.Op, op.I)
				if op.Route != "" {
					sb.WriteString("," + op.Route)
				}
				if op.Op == "clone" {
					fmt.Fprintf(&sb, "<-%d", op.J)
				}
				if len(op.S) > 0 {
					fmt.Fprintf(&sb, ",%q", t.expand(op.S))
				}
				sb.WriteString(") ")
			}
			return sb.String()
		}
		for _, p := range a.problems {
			res.violate(p+"  [ops: "+opsStr()+"]", "message:route", det(nil))
		}
		if len(a.msgs) != len(b.Msgs) {
			fatal("behaviour %d: %d messages built, spec has %d", idx, len(a.msgs), len(b.Msgs))
		}
		var all strings.Builder
		for i, m := range a.msgs {
			want := b.Msgs[i]
			// C14: a set value is a single line, and is the value the spec says
			for _, fv := range []struct {
				name string
				set  bool
				val  string
				w    msField
			}{{"ID", m.ID.IsSet(), m.ID.String(), want.ID}, {"Type", m.Type.IsSet(), m.Type.String(), want.Type}} {
				if fv.set && strings.ContainsAny(fv.val, "\r\n") {
					res.violate(fmt.Sprintf("message %d: %s is set to the multi-line value %q  [ops: %s]", i+1, fv.name, fv.val, opsStr()), "message:field-multiline", det(nil))
				}
				if !fieldEq(t, fv.w, fv.set, fv.val) {
					res.violate(fmt.Sprintf("message %d: %s is set=%v %q, spec: set=%v %q  [ops: %s]", i+1, fv.name, fv.set, fv.val, fv.w.Set, t.expand(fv.w.V), opsStr()), "message:field-value", det(nil))
				}
			}
			// C15: the three encoders agree; nothing to write produces nothing
			s := m.String()
			mt, merr := m.MarshalText()
			var wb bytes.Buffer
			nw, werr := m.WriteTo(&wb)
			if merr != nil || werr != nil || string(mt) != s || wb.String() != s || nw != int64(len(s)) {
				res.violate(fmt.Sprintf("message %d: WriteTo/MarshalText/String disagree (%q / %q / %q, n=%d, errors %v %v)  [ops: %s]", i+1, wb.String(), mt, s, nw, werr, merr, opsStr()), "message:encoders", det(nil))
			}
			if len(want.Wire) == 0 && s != "" {
				res.violate(fmt.Sprintf("message %d has nothing to write but encodes to %q  [ops: %s]", i+1, s, opsStr()), "message:empty", det(nil))
			}
			if t.expand(want.Wire) != s {
				res.addNote("wire_differs_from_canonical", 1) // allowed: no byte-exact format is demanded
			} else {
				res.addNote("wire_canonical", 1)
			}
			// C19 / C02: what each member encodes to is what value semantics says: decoded below via the family's concatenation
			all.WriteString(s)
			// C15: round trip
			var back sse.Message
			back.AppendComment("stale")
			uerr := back.UnmarshalText([]byte(s))
			idNUL := m.ID.IsSet() && strings.ContainsRune(m.ID.String(), 0)
			switch {
			case s == "":
				if uerr == nil {
					res.violate(fmt.Sprintf("message %d: UnmarshalText of an empty encoding succeeded  [ops: %s]", i+1, opsStr()), "message:roundtrip", det(nil))
				}
			case idNUL:
				// outside C15 (IDs without NUL)
			default:
				if uerr != nil {
					res.violate(fmt.Sprintf("message %d: UnmarshalText(MarshalText(m)) failed: %v; encoding %q  [ops: %s]", i+1, uerr, s, opsStr()), "message:roundtrip", det(nil))
					break
				}
				if back.String() != s {
					res.violate(fmt.Sprintf("message %d: round trip changed the encoding: %q -> %q  [ops: %s]", i+1, s, back.String(), opsStr()), "message:roundtrip", det(nil))
				}
				u := want.Unmarshal
				if !u.OK || !fieldEq(t, u.M.ID, back.ID.IsSet(), back.ID.String()) || !fieldEq(t, u.M.Type, back.Type.IsSet(), back.Type.String()) {
					res.violate(fmt.Sprintf("message %d: decoded ID/type (%v %q / %v %q) differ from the spec's  [ops: %s]", i+1, back.ID.IsSet(), back.ID.String(), back.Type.IsSet(), back.Type.String(), opsStr()), "message:roundtrip-fields", det(nil))
				}
				wantMs := int64(0)
				if ds := t.expand(u.M.RetryDigits); ds != "" {
					fmt.Sscan(ds, &wantMs)
				}
				if back.Retry.Milliseconds() != wantMs {
					res.violate(fmt.Sprintf("message %d: decoded retry %v, spec %d ms  [ops: %s]", i+1, back.Retry, wantMs, opsStr()), "message:roundtrip-fields", det(nil))
				}
			}
			// C15: byte accounting under a failing writer, at every Write call and several short-write lengths
			if *faults && s != "" {
				free := &faultWriter{}
				m.WriteTo(free)
				emit := idx%*every == 0
				for k := 1; k <= len(free.calls); k++ {
					l := free.calls[k-1].Len
					for _, acc := range []int{0, l / 2, l - 1} {
						if acc < 0 || acc >= l && l > 0 {
							continue
						}
						acc := acc
						fw := &faultWriter{failAt: k, accept: func(int) int { return acc }}
						nn, err := m.WriteTo(fw)
						res.eval(1)
						prefix := strings.HasPrefix(s, fw.got.String())
						if !errors.Is(err, errBoom) || nn != int64(fw.got.Len()) || fw.after != 0 || !prefix {
							res.violate(fmt.Sprintf("message %d: Write %d of %d accepted %d of %d bytes and failed: WriteTo returned (%d, %v), writer holds %d bytes, %d calls after the failure, prefix=%v  [ops: %s]",
								i+1, k, len(free.calls), acc, l, nn, err, fw.got.Len(), fw.after, prefix, opsStr()), "message:accounting", det(map[string]any{"fail_at": k, "accepted": acc}))
						}
						if emit && (k == 1 || k == len(free.calls) || (k+idx)%3 == 0) {
							cases.add(map[string]any{"kind": "writes", "msg": want, "writes": fw.calls, "n": nn, "err": err != nil, "prefix": prefix})
						}
						if l == 0 {
							break
						}
					}
				}
				if emit {
					cases.add(map[string]any{"kind": "writes", "msg": want, "writes": free.calls, "n": int64(len(s)), "err": false, "prefix": true})
				}
				// the same under a destination that also is an io.ByteWriter / io.StringWriter
				freeR := &faultWriter{}
				nfree, efree := m.WriteTo(richWriter{freeR})
				if efree != nil || nfree != int64(len(s)) || freeR.got.String() != s {
					res.violate(fmt.Sprintf("message %d: WriteTo to a ByteWriter/StringWriter destination wrote %q, returned (%d, %v), encoding %q  [ops: %s]", i+1, freeR.got.String(), nfree, efree, s, opsStr()), "message:accounting-rich", det(nil))
				}
				for k := 1; k <= len(freeR.calls); k++ {
					l := freeR.calls[k-1].Len
					for _, acc := range []int{0, l / 2} {
						if acc >= l && l > 0 {
							continue
						}
						acc := acc
						fw := &faultWriter{failAt: k, accept: func(int) int { return acc }}
						nn, err := m.WriteTo(richWriter{fw})
						res.eval(1)
						prefix := strings.HasPrefix(s, fw.got.String())
						if !errors.Is(err, errBoom) || nn != int64(fw.got.Len()) || fw.after != 0 || !prefix {
							res.violate(fmt.Sprintf("message %d (ByteWriter/StringWriter destination): call %d of %d failed: WriteTo returned (%d, %v), writer holds %d bytes, %d calls after the failure, prefix=%v  [ops: %s]",
								i+1, k, len(freeR.calls), nn, err, fw.got.Len(), fw.after, prefix, opsStr()), "message:accounting-rich", det(map[string]any{"fail_at": k, "accepted": acc}))
						}
						if l == 0 {
							break
						}
					}
				}
			}
		}
		// C02: the concatenated real bytes decode, with go-sse's own parser, to exactly the spec's events
		o := runRead(strings.NewReader(all.String()), nil, 0)
		res.eval(1)
		wantR := t.events(stResult{Out: b.Read})
		if o.panicked != nil || o.err != nil || !evsEq(o.evs, wantR) {
			res.violate(fmt.Sprintf("decoding the family's encoding %q gave %s (err %v), spec: %s  [ops: %s]", clipStr(all.String(), 120), showEvs(o.evs), o.err, showEvs(wantR), opsStr()),
				"message:decode", det(map[string]any{"wire": all.String()}))
		}
		if len(b.Read) > 0 || len(a.msgs) > 1 {
			res.nontrivial(opsStr())
		}
		// ... and with the spec-conforming parser: the real bytes go back to TLC (MessageTrace.tla)
		if idx%*every == 0 {
			toks, ok := tk.tokens(all.String())
			if !ok || t.expand(toks) != all.String() {
				// bytes outside the alphabet: nothing the spec's parser can be given (the direct comparisons above still apply)
				res.addNote("untokenisable_encodings", 1)
			} else {
				cases.add(map[string]any{"kind": "wire", "msgs": b.Msgs, "got": toks})
			}
		}
		if idx%1777 == 0 {
			res.sample(map[string]any{"ops": opsStr(), "encoding": clipStr(all.String(), 200), "expected_events": showEvs(wantR)})
		}
	})
	res.Behaviours = n
	if cases != nil {
		res.note("trace_cases", cases.n)
	}
	res.write(*out)
}

func clipStr(s string, n int) string {
	if len(s) > n {
		return s[:n] + "..."
	}
	return s
}

var _ = io.EOF

func init() {
	commands["message"] = cmdMessage
}
