package main

import (
	"encoding/json"
	"errors"
	"flag"
	"io"
	"math/rand"
	"os"
	"strings"

	sse "github.com/tmaxmax/go-sse"
)

// cmdChunks: direction B for the tokenizer layer. For each input (token string) and a set of
// segmentations at token boundaries, sse.Read is run with the verif chunk hook installed; the chunks the
// scanner handed out and the events / end status are written as cases for TokenizerTrace.tla.
func cmdChunks(args []string) {
	fs := flag.NewFlagSet("chunks", flag.ExitOnError)
	in := fs.String("in", "", "ndjson behaviours exported by Stream.tla (only `input` is used)")
	out := fs.String("out", "", "result file")
	table := fs.String("table", "", "token table")
	casesPath := fs.String("cases", "", "cases for TokenizerTrace.tla")
	every := fs.Int("every", 1, "use every n-th input")
	maxSegs := fs.Int("segs", 8, "segmentations per input (all of them when there are fewer)")
	alpha := fs.String("alphabet", "", "comma list: the generation alphabet (re-tokenisation uses only these tokens, so that it is unambiguous)")
	fs.Parse(args)
	t := loadTable(*table)
	tk := newTokeniser(t, strings.Split(*alpha, ",")...)
	res := newResult()
	f, err := os.Create(*casesPath)
	if err != nil {
		fatal("cases: %v", err)
	}
	defer f.Close()
	enc := json.NewEncoder(f)
	ncases := 0
	var got []string
	sse.VerifSetChunkHook(func(text string) { got = append(got, text) })
	defer sse.VerifSetChunkHook(nil)
	rng := rand.New(rand.NewSource(envSeed()))
	n := eachLine(*in, 1, func(line []byte, idx int) {
		if idx%*every != 0 {
			return
		}
		var b stBeh
		if err := json.Unmarshal(line, &b); err != nil {
			fatal("bad behaviour line %d: %v", idx, err)
		}
		if len(b.Input) == 0 {
			return
		}
		input := t.expand(b.Input)
		bounds := t.boundaries(b.Input) // byte offset at which token i (0-based) starts
		nb := len(b.Input) - 1          // possible cut positions: after token 1..n-1
		var segs [][]int                // cut positions as token counts
		if nb <= 3 || (1<<nb) <= *maxSegs {
			for m := 0; m < 1<<nb; m++ {
				var cs []int
				for k := 0; k < nb; k++ {
					if m&(1<<k) != 0 {
						cs = append(cs, k+1)
					}
				}
				segs = append(segs, cs)
			}
		} else {
			segs = append(segs, nil)
			all := make([]int, nb)
			for k := range all {
				all[k] = k + 1
			}
			segs = append(segs, all)
			for len(segs) < *maxSegs {
				var cs []int
				for k := 1; k <= nb; k++ {
					if rng.Intn(2) == 0 {
						cs = append(cs, k)
					}
				}
				segs = append(segs, cs)
			}
		}
		for _, cs := range segs {
			byteCuts := make([]int, len(cs))
			for i, k := range cs {
				byteCuts[i] = bounds[k]
			}
			got = got[:0]
			o := runRead(&segReader{s: input, cuts: byteCuts, end: io.EOF}, nil, 0)
			res.eval(1)
			if o.panicked != nil {
				res.violate("Read panicked", "chunks:panic", map[string]any{"input": b.Input})
				continue
			}
			chunks := make([][]string, 0, len(got))
			for _, c := range got {
				toks, ok := tk.tokens(c)
				if !ok {
					fatal("chunk %q cannot be tokenised", c)
				}
				chunks = append(chunks, toks)
			}
			evs := make([]map[string][]string, 0, len(o.evs))
			for _, e := range o.evs {
				id, _ := tk.tokens(e.ID)
				ty, _ := tk.tokens(e.Type)
				da, _ := tk.tokens(e.Data)
				evs = append(evs, map[string][]string{"id": id, "type": ty, "data": da})
			}
			status := "eof"
			if errors.Is(o.err, sse.ErrUnexpectedEOF) {
				status = "unexpected_eof"
			} else if o.err != nil {
				status = "error:" + o.err.Error()
			}
			if cs == nil {
				cs = []int{}
			}
			enc.Encode(map[string]any{"input": b.Input, "cuts": cs, "chunks": chunks, "events": evs, "status": status})
			ncases++
			if len(chunks) > 1 {
				res.nontrivial(string(line) + string(rune(len(cs))))
			}
		}
		if idx%2999 == 0 {
			res.sample(map[string]any{"input": b.Input, "segmentations": len(segs), "last_chunks": got})
		}
	})
	res.Behaviours = n
	res.note("trace_cases", ncases)
	res.write(*out)
}

func init() {
	commands["chunks"] = cmdChunks
}
