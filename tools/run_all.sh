#!/bin/bash
# run_all.sh <tier> [ids...] : runs the checks one after the other, prints one line per check
tier=${1:-quick}; shift
ids=${@:-C01 C02 C03 C04 C05 C06 C07 C08 C09 C10 C11 C12 C13 C14 C15 C16 C17 C18 C19 C20}
cd "$(dirname "$0")/.."
for p in $ids; do
  s=$(date +%s)
  out=$(bin/vcheck run $p --tier $tier 2>&1); rc=$?
  e=$(( $(date +%s) - s ))
  echo "$p tier=$tier rc=$rc wall=${e}s $(echo "$out" | grep -E 'VIOLATION|TOOL FAILURE' | head -3 | tr '\n' ' ' | cut -c1-400)"
done
