#!/bin/bash
# process_round.sh <tag> : confirms every delivered change /tmp/mut/out/*-<tag>[ab] not yet in seeded/, then runs the checks against the confirmed ones
tag=$1
export GOFLAGS=-mod=mod GOPROXY=off GOSUMDB=off GOTOOLCHAIN=local
cd "$(dirname "$0")/.."
new=""
for d in /tmp/mut/out/*-${tag}?; do
  n=$(basename $d)
  [ -f "$d/patch.diff" ] || continue
  [ -d seeded/$n ] && continue
  [ -f /tmp/mut/out/$n.rejected ] && continue
  if tools/confirm_mutant.sh $n 2>&1 | grep -q "^CONFIRMED"; then new="$new $n"; echo "confirmed $n"; else echo "NOT CONFIRMED $n"; touch /tmp/mut/out/$n.rejected; fi
done
[ -n "$new" ] && bin/vcheck seeded --isolated $new 2>&1 | grep -E "^C[0-9]+-" | cut -c1-330
