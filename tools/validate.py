import json, jsonschema, glob
m=json.load(open('/verif/MANIFEST.json')); s=json.load(open('/root/.vp/MANIFEST.schema.json'))
jsonschema.validate(m,s); print("manifest ok", len(m['checks']), len(m['not_applicable']))
es=json.load(open('/root/.vp/EVIDENCE.schema.json'))
for c in m['checks']:
    p=c['evidence_file']
    try:
        jsonschema.validate(json.load(open(p)), es); print(p,'ok')
    except Exception as e: print(p,'BAD',str(e)[:300])
