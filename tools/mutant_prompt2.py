#!/usr/bin/env python3
"""Second-round prompt: same as mutant_prompt.py plus the list of mechanisms already tried for this property."""
import json, sys, os, subprocess
pid, wt, tag = sys.argv[1], sys.argv[2], sys.argv[3]
base = subprocess.run([os.path.join(os.path.dirname(__file__), "mutant_prompt.py"), pid, wt, "2"], capture_output=True, text=True).stdout
tried = []
sd = os.path.join(os.path.dirname(__file__), "..", "seeded")
for d in sorted(os.listdir(sd)):
    mp = os.path.join(sd, d, "meta.json")
    if os.path.exists(mp):
        m = json.load(open(mp))
        if m.get("property") == pid or pid in m.get("also", []):
            tried.append("- " + m.get("summary", "")[:400])
base = base.replace("/tmp/mut/out/%s-<k>/" % pid, "/tmp/mut/out/%s-%s<k>/" % (pid, tag))
base = base.replace('"name": "%s-<k>"' % pid, '"name": "%s-%s<k>"' % (pid, tag))
base = base.replace("TestSeeded_%s_<k>" % pid, "TestSeeded_%s_%s<k>" % (pid, tag))
extra = "\n\nThe following mechanisms have ALREADY been used by earlier seeded changes for this property; do NOT repeat them or close variants of them - find different functions, clauses or interactions:\n" + "\n".join(tried) + \
        "\n\nUse the names %s-%sa and %s-%sb (directories /tmp/mut/out/%s-%sa/ and /tmp/mut/out/%s-%sb/, test functions TestSeeded_%s_%sa / TestSeeded_%s_%sb). " % ((pid, tag) * 6) + \
        "Do not use `git stash` (the stash list is shared between worktrees); use `git diff > file` and `git checkout -- .`. The source contains calls like verifAt(\"...\") and verifChunk(...) which are no-op instrumentation hooks; leave them in place.\n"
print(base + extra)
