#!/usr/bin/env python3
"""Prints the prompt given to an independent sub-agent asked for a property-breaking change (nothing from /verif but the property text)."""
import json, sys
pid = sys.argv[1]
wt = sys.argv[2]
n = sys.argv[3] if len(sys.argv) > 3 else "2"
for l in open('/verif/properties.jsonl'):
    p = json.loads(l)
    if p['id'] == pid:
        break
print(f"""You are helping to test a verification framework by seeding realistic defects into a Go library.

Your working directory is {wt} — a scratch git worktree of the Go library tmaxmax/go-sse (server-sent events: parser, HTTP client with reconnect, pub/sub provider "Joe" with replay buffers). Work ONLY inside {wt} and write your deliverables under /tmp/mut/out/. Do not read or touch /repo, /verif or any other directory. There is no network. Use this environment for every go command:
  export GOFLAGS=-mod=mod GOPROXY=off GOSUMDB=off GOTOOLCHAIN=local

Here is a semantic property that the library is supposed to satisfy:

  Title: {p['title']}
  Statement: {p['statement']}
  Quantified over: {p['quantifier']['text']}

Your task: produce {n} DIFFERENT changes to the library's non-test Go source (each a separate, independent patch against the clean worktree) such that each change
  1. BREAKS the property above (for at least one input / schedule / history in its quantifier),
  2. still compiles (`go build ./...` and `go vet ./...` are fine) and still PASSES the whole existing test suite unchanged: `go test -vet=off -count=1 ./...` (run it 3 times to make sure it is not flaky),
  3. is REALISTIC: the kind of slip a maintainer could make in a refactor, an optimisation, a clean-up or a small feature — an off-by-one, a wrong comparison, a dropped branch, a reordered pair of statements, a missing copy/reset, a condition that looks equivalent but is not. Not sabotage, no special-casing of magic inputs, no new dependencies, no changes to tests, no build tags. Keep it small (a few lines).
  4. needs SOMETHING SPECIFIC TO MANIFEST — a particular interleaving, a fault at a particular point, a multi-step sequence of operations, an unusual input, or two cooperating sites that each look fine alone — so that ordinary use and the existing tests do not expose it at once.
The two changes should break the property through different mechanisms (different functions or different clauses of the property).

For each change k (k = a, b, ...), deliver the directory /tmp/mut/out/{pid}-<k>/ containing:
  - patch.diff : `git diff` of the change against the clean worktree (non-test files only; must apply with `git apply` to a clean checkout of the same commit),
  - demo_test.go : a self-contained Go test file in package `sse_test` (or `sse`, or for parser internals package `parser` — say which directory it belongs in via meta.json "demo_dir", relative to the repo root, default ".") named so it does not clash with existing files, containing one test function `TestSeeded_{pid}_<k>` that FAILS with the change applied and PASSES on the clean tree. It must be deterministic or, if the defect needs a race, loop enough to fail reliably (say how reliably).
  - meta.json : {{"property": "{pid}", "name": "{pid}-<k>", "summary": "<one sentence: what was changed>", "needs": "<what specific input/schedule/history/fault is needed for it to manifest>", "demo_dir": ".", "demo_cmd": "go test -vet=off -count=1 -run TestSeeded_{pid}_<k> .", "files": ["<changed files>"]}}

Procedure for each change: start from a clean worktree (`git checkout -- . && git clean -fd`), make the change, run the existing suite 3 times, write the demo test, confirm it fails; then `git stash` / revert the library change (keep the demo test), confirm the demo passes on the clean tree; write the three files; finally restore the worktree to clean (`git checkout -- . && git clean -fd`) before the next change. Do not commit anything.

When done, reply with a short summary: for each change its name, the one-line summary, what it needs to manifest, and the exact commands you ran to confirm (suite passes with the change, demo fails with it, demo passes without it). If you could not find a change meeting all four conditions, say so rather than delivering a weaker one.""")
