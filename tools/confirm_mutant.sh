#!/bin/bash
# confirm_mutant.sh <name> : confirms, in a scratch worktree of /repo HEAD, that the seeded change
# /tmp/mut/out/<name> (or /verif/seeded/<name>) compiles, passes the pinned suite, and that its demonstration
# fails with it and passes without it.  On success copies it to /verif/seeded/<name>/.
set -u
export GOFLAGS=-mod=mod GOPROXY=off GOSUMDB=off GOTOOLCHAIN=local
name=$1
src=/tmp/mut/out/$name
[ -d "$src" ] || src=/verif/seeded/$name
wt=/tmp/mut/confirm-$name
git -C /repo worktree remove --force $wt 2>/dev/null
git -C /repo worktree add -q --detach $wt HEAD || exit 2
cleanup() { git -C /repo worktree remove --force $wt; }
trap cleanup EXIT
cd $wt
ddir=$(python3 -c "import json;print(json.load(open('$src/meta.json')).get('demo_dir','.'))")
dcmd=$(python3 -c "import json;print(json.load(open('$src/meta.json'))['demo_cmd'])")
cp $src/demo_test.go $ddir/zz_seeded_demo_test.go
echo "== demo on clean tree"
(cd $wt && eval "$dcmd") > /tmp/mut/confirm-$name.clean.log 2>&1; rc_clean=$?
git apply $src/patch.diff || { echo "PATCH DOES NOT APPLY"; exit 1; }
echo "== build + suite with the change (demo excluded)"
mv $ddir/zz_seeded_demo_test.go /tmp/mut/zz_$name.go
go build ./... && go vet ./... >/dev/null 2>&1
suite_ok=1
for i in 1 2; do go test -vet=off -count=1 ./... > /tmp/mut/confirm-$name.suite.log 2>&1 || suite_ok=0; done
mv /tmp/mut/zz_$name.go $ddir/zz_seeded_demo_test.go
echo "== demo with the change"
(cd $wt && eval "$dcmd") > /tmp/mut/confirm-$name.mut.log 2>&1; rc_mut=$?
echo "clean demo rc=$rc_clean  suite_ok=$suite_ok  mutated demo rc=$rc_mut"
if [ $rc_clean -eq 0 ] && [ $suite_ok -eq 1 ] && [ $rc_mut -ne 0 ]; then
  if [ "$src" != "/verif/seeded/$name" ]; then mkdir -p /verif/seeded/$name && cp $src/patch.diff $src/demo_test.go $src/meta.json /verif/seeded/$name/; fi
  echo "CONFIRMED $name"
else
  echo "NOT CONFIRMED $name"; tail -5 /tmp/mut/confirm-$name.*.log
fi
